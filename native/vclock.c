/* Virtual wall clock at the libc boundary (LD_PRELOAD).
 * While v_ns >= 0, CLOCK_REALTIME (and gettimeofday/time) return v_ns; CLOCK_MONOTONIC is untouched,
 * so time.perf_counter()/time.monotonic() stay real and the harness can measure its own wall time. */
#define _GNU_SOURCE
#include <time.h>
#include <sys/time.h>
#include <dlfcn.h>
#include <stdint.h>
static volatile int64_t v_ns = -1;   /* -1: passthrough */
static volatile long calls = 0;
static int (*real_cg)(clockid_t, struct timespec*) = 0;
void vclock_set_ns(int64_t ns){ v_ns = ns; }
int64_t vclock_get_ns(void){ return v_ns; }
long vclock_calls(void){ return calls; }
int clock_gettime(clockid_t id, struct timespec *ts){
  if(!real_cg) real_cg = dlsym(RTLD_NEXT, "clock_gettime");
  if(v_ns >= 0 && (id == CLOCK_REALTIME || id == CLOCK_REALTIME_COARSE)){
    calls++;
    ts->tv_sec = v_ns / 1000000000LL; ts->tv_nsec = v_ns % 1000000000LL; return 0;
  }
  return real_cg(id, ts);
}
int gettimeofday(struct timeval *tv, void *tz){
  struct timespec ts; clock_gettime(CLOCK_REALTIME, &ts);
  if(tv){ tv->tv_sec = ts.tv_sec; tv->tv_usec = ts.tv_nsec/1000; }
  return 0;
}
time_t time(time_t *t){
  struct timespec ts; clock_gettime(CLOCK_REALTIME,&ts); if(t)*t=ts.tv_sec; return ts.tv_sec;
}

#!/bin/bash
# tools/mut.sh <patch-or-sed-file> <check args...>: run a check against a scratch copy of /repo with a change applied.
# The first argument is either a unified diff (applied with git apply/patch -p1) or "sed:<file>:<expr>".
set -u
HERE="$(cd "$(dirname "$0")/.." && pwd)"
M="$1"; shift
D=$(mktemp -d /tmp/mut.XXXXXX)
rsync -a --exclude .git --exclude __pycache__ /repo/ "$D/"
if [[ "$M" == sed:* ]]; then
  IFS=: read -r _ F E <<<"$M"
  sed -i -E "$E" "$D/$F" || { echo "sed failed"; rm -rf "$D"; exit 3; }
  if diff -q "/repo/$F" "$D/$F" >/dev/null; then echo "MUTANT DID NOT CHANGE ANYTHING"; rm -rf "$D"; exit 3; fi
elif [[ "$M" == py:* ]]; then
  # py:<file>:<old>=><new>   (literal replacement, first occurrence; \n for newlines)
  F="${M#py:}"; F="${F%%:*}"; SPEC="${M#py:*:}"
  python3 - "$D/$F" "$SPEC" <<'PY' || { echo "py mutation failed"; rm -rf "$D"; exit 3; }
import sys
path, spec = sys.argv[1], sys.argv[2]
old, new = spec.split("=>", 1)
old = old.replace("\\n", "\n"); new = new.replace("\\n", "\n")
s = open(path).read()
if old not in s:
    print("MUTANT DID NOT CHANGE ANYTHING"); sys.exit(1)
open(path, "w").write(s.replace(old, new, 1))
PY
else
  (cd "$D" && patch -p1 -s < "$M") || { echo "patch failed"; rm -rf "$D"; exit 3; }
fi
if [ "${1:-}" == "--tests" ]; then
  shift
  (cd "$D" && /venv/bin/python -m pytest -q -x -p no:cacheprovider --timeout=900 -n 8 tests 2>&1 | tail -3)
fi
REPID_SRC="$D" "$HERE/check" "$@" --no-evidence
rc=$?
rm -rf "$D"
exit $rc

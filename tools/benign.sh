#!/bin/bash
# tools/benign.sh <name>...: applies benign/<name>.diff (a behaviour-preserving change written by an independent agent) to a scratch
# copy of /repo and runs every quick check against it; any exit code other than 0 is a false alarm (or an inconclusive run) to look at.
cd "$(dirname "$0")/.."
# (the checks are run from a private copy of /verif taken now, so that edits made while this runs cannot show up as alarms)
V=$(mktemp -d /tmp/benign-verif.XXXXXX)
rsync -a --exclude .git --exclude replays --exclude evidence --exclude __pycache__ --exclude seeded ./ $V/
trap 'rm -rf $V' EXIT
for n in "$@"; do
  d=$(mktemp -d /tmp/benign.XXXXXX)
  rsync -a --exclude .git --exclude __pycache__ /repo/ $d/
  if ! (cd $d && patch -p1 -s -i /verif/benign/$n.diff); then echo "$n PATCH-FAILS"; rm -rf $d; continue; fi
  for i in $(seq -w 1 20); do
    out=$(cd $V && REPID_SRC=$d ./check C$i --tier quick --no-evidence 2>&1); rc=$?
    if [ $rc -ne 0 ]; then echo "$n C$i rc=$rc"; echo "$out" | grep -E "^VIOLATION|^INCONCLUSIVE|required|shard problem" | head -4 | cut -c1-400; fi
  done
  echo "$n done"
  rm -rf $d
done

SOURCE_COMMITS = []  # no guarded hook commits: instrumentation is harness-side only
FIX_COMMITS = ["72224cf", "5e98ecd", "2300819", "45660fa", "ac83a8e", "f5d3225", "01d6c3c", "044fec0", "b901102", "45ef255", "c6a0d8f", "42e0ef1", "a7f873b"]
NOTES = "Runtime monitoring of the real repid code; see DESIGN.md. Verdicts are 'held on the executions produced', never proofs."
NOT_APPLICABLE = {}
CHECKS = {
    "C01": {
        "level": "fault_enumeration",
        "technique": "runtime monitoring: lifecycle reference model vs broker-state snapshots after every call of random histories; every call cancelled at every event-loop step",
        "text": "Random well-behaved histories of broker-API calls run on the real in-memory, Redis and RabbitMQ broker classes (the latter two over an in-memory wire to wire-level fake servers) on a virtual clock; after every call a snapshot of the broker's actual state is compared with a lifecycle model, at the end a drain audit through the public API must return every message exactly once with the right content. Separately each call (enqueue, consume, ack, nack, reject, requeue, finish) is cancelled at every loop step of its execution and the state must be its pre- or post-state and stay recoverable. Fault enumeration over cancellation points is exhaustive per (broker, op, pre-state, latency); histories are sampled.",
        "note": "Fake Redis/AMQP servers are trusted (rules R1-R7 in DESIGN 3.4); well-behaved clients by construction; findings not repaired are listed in known_findings.json by mechanism.",
        "ref": "DESIGN.md 5/C01",
    },
    "C02": {
        "level": "exploration",
        "technique": "runtime monitoring: per-delivery disposition ladder oracle over recorded top-level broker calls of real Worker runs",
        "text": "A crossed table of ~1400 cells (actor outcome incl. 5 exception types, timeout, conversion failure, dependency failure, six eager responses x result/exception/callback variants; retries 0/1/3; attempt first/middle/last; recurring or not; result storing on/off) is executed through real Workers (6-24 cells concurrently, tasks_limit 1/3/1000, both converters, three brokers); every delivery is paired with the terminal broker calls that follow it and judged against the ladder (exactly one call, the right one, with the right retry/reschedule parameters); sentinel jobs prove the worker keeps processing.",
        "note": "Virtual time; deliveries cut short by the final stop request are not judged; cron recurrence not reachable (croniter absent).",
        "ref": "DESIGN.md 5/C02",
    },
    "C04": {
        "level": "exploration",
        "technique": "runtime monitoring: per-chain monitor over recorded actor starts, requeue parameters and final broker state, on a virtual clock",
        "text": "Every failure pattern over the attempts (exception/timeout/success) for N in 0..3 (sampled for N=7), five retry policies, with/without recurrence, ladder and eager retry/force_retry modes, on the three brokers: the monitor counts executions per scheduling (N+1 or first success), follows the attempt counter 0,1,2.. (never above N unless forced), compares each retry's due time with failure time + policy(k) to 20 us, checks that no retry starts more than 1 ms before its due time, and the final place (gone / dead / rescheduled with counter 0).",
        "note": "Virtual time; fakes for Redis/RabbitMQ; RabbitMQ retries parked behind a longer delay at the horizon are counted, not judged (lateness is C05's).",
        "ref": "DESIGN.md 5/C04",
    },
    "C05": {
        "level": "exploration",
        "technique": "runtime monitoring: delivery-instant oracle on a virtual wall clock (libc interposition), boundary grid of due times x clock phases x consumer phases",
        "text": "Single delayed messages over a grid of due offsets (past .. +30 d), 12 positions of now inside the second, 6 consumer phases and three ways of creating the delay, plus queues with several non-monotone due times and category-visibility probes, on the three brokers: a delivery more than 1 ms before T is a violation, so is no delivery within 10 s of virtual time after max(T, consumer start), so is visibility through a NORMAL/DEAD consumer before T.",
        "note": "Virtual time; fakes; RabbitMQ head-of-queue TTL expiry (documented server rule R2) makes short delays behind long ones late: recorded as a known finding, keyed by the multi-message non-monotone pattern.",
        "ref": "DESIGN.md 5/C05",
    },
    "C06": {
        "level": "exploration",
        "technique": "runtime monitoring: cadence inequalities over the parameters of every reschedule recorded from real Worker runs on a virtual clock",
        "text": "Recurring jobs run 8-25 consecutive iterations through a real Worker with five duration/lateness profiles (constant, growing, shrinking, saw-tooth, longer than the period), four outcome chains (ok, retry, exhausted, mixed), periods 1 s .. 1 h (process suspended between runs by clock steps), deferred_until none/ahead/past, three brokers. For every completed iteration: exactly one reschedule, counter 0, timestamp == now, now < next <= now + period, next >= scheduled time of the run that just finished + period; one instance of the job afterwards.",
        "note": "Virtual time; fakes; cron unreachable (croniter absent); the scheduled time of the first run is read from the real function at enqueue time and checked against deferred_until / the (now, now+p] window.",
        "ref": "DESIGN.md 5/C06",
    },
    "C08": {
        "level": "exploration",
        "technique": "runtime monitoring: 15-line reference binder vs. what the real converters would call the actor with (bound to the signature exactly as Python would), differential Basic vs Pydantic, output round-trip, end-to-end sample through a Worker with the default converter",
        "text": "Generated signatures (<= 5 parameters over the five kinds, defaults, eight annotations, dependency parameters interleaved) x payload shapes (empty string, {}, exact, each required key missing, optional keys missing, extra keys, missing+extra) under BasicConverter and PydanticConverter: each parameter must get its payload entry or its default, extras go only to a catch-all, a payload lacking a parameter without default must fail before the body, both converters must agree, json.loads(convert_outputs(v)) must equal the JSON normal form of v; a sample runs end-to-end with the default converter selection (argument-less jobs on all-default actors).",
        "note": "Typed payloads only (coercion out of scope); Pydantic v1 converter not exercised.",
        "ref": "DESIGN.md 5/C08",
    },
    "C09": {
        "level": "exploration",
        "technique": "runtime monitoring: synchronous in-flight counter at actor entry/exit + bounded-progress (makespan, refill) oracle on a virtual clock",
        "text": "Real Workers with tasks_limit 1/2/3/10/1000 over 1-3 queues sharing the limit, four duration profiles, failures, and four arrival patterns (all before start, bursts while saturated, enqueued at the very instant an actor finishes, trickle) on three brokers: at every actor entry the exact number of invocations in progress must be <= the limit; all jobs must be executed within a computed makespan bound (a stalled or dead-locked worker is a violation with the task dump), and a freed slot with backlog must be refilled within 3 s of virtual time.",
        "note": "'Eventually' is restated as bounded progress in virtual time; fakes for Redis/RabbitMQ.",
        "ref": "DESIGN.md 5/C09",
    },
    "C10": {
        "level": "exploration",
        "technique": "runtime monitoring: actor-start counter per Worker.run, return watchdog in virtual time, post-run broker-state audit of the leftovers; plugin driven through enqueue sequences",
        "text": "Workers with messages_limit M in {1,2,5} face backlogs M+1, 3M, 50 (and exactly M with more work arriving 0.5 s after the M-th completion), actor durations 0..6 s, tasks_limit 1/M/1000, 1-3 queues, three brokers: starts <= M, run() returns, never-started messages are still waiting with an unchanged retry counter. RunWorkerOnEnqueueModifier (M=1) is driven through random enqueue sequences (ok, failing with retry, delayed, unrelated): after each enqueue returns the job ran exactly once.",
        "note": "The known overshoot mechanisms are keyed by when the extra executions start relative to the M-th completion, so a different overshoot (e.g. work picked up long after the limit was hit) is still reported.",
        "ref": "DESIGN.md 5/C10",
    },
    "C11": {
        "level": "exploration",
        "technique": "runtime monitoring: who-ran-what attribution (every generated actor logs its registration) against a last-wins reference table + post-run broker audit of foreign messages",
        "text": "Random registration tables (<= 4 routers, 6 names, 3 queues, overrides within and across routers, forced moves of a name to another queue) are included into real Workers; jobs over the (name, queue) product are enqueued with foreign messages in front of own ones; tasks_limit 1/3/1000; three brokers. Every actor start must come from the winning registration and only for the queue that registration serves; Worker.actors must equal the last-wins union; foreign messages must end where they were, never executed, counter unchanged; own messages behind them must run within a bound; two workers with disjoint topics on one queue must execute everything exactly once.",
        "note": "Virtual time; fakes; RabbitMQ requeue-to-head (rule R4) makes the reject-requeue parking of foreign messages block or livelock: known findings keyed by 'prefetch window <= foreign messages' and 'two-workers'.",
        "ref": "DESIGN.md 5/C11",
    },
    "C12": {
        "level": "exploration",
        "technique": "runtime monitoring: expiry oracle over observed actor-start and first-seen-dead instants (per-loop-iteration state probe) on a virtual clock with exact boundary placement",
        "text": "Jobs with ttl in {1,1.5,4,3600,none} are delivered to a real Worker at E-1s, E-1us, E, E+1us, E+1s (clock stepped to the exact instant) as immediate, delayed (T<E, T>E), retried (back-off inside / across E) and recurring (clock restarted) messages on three brokers. Executed => start <= expiry carried by the delivered message; dead-lettered without failure => first instant it is seen dead > E (probe at every loop iteration, so the boundary is exact at zero latency); dead-lettered => returned by a DEAD consumer.",
        "note": "Virtual time; fakes; redis instants approximate (priority polling sleeps) so its allowance is 0.35 s.",
        "ref": "DESIGN.md 5/C12",
    },
    "C15": {
        "level": "exploration",
        "technique": "runtime monitoring: order oracle over the recorded delivery sequence of uniquely identified messages (enqueue order, returns)",
        "text": "Uniquely numbered messages of one priority, with own/foreign topic mixes, backlogs shorter and longer than the Redis fetch window (1..60, and a steady state that keeps >= 12 waiting for 120 rounds), are consumed by one consumer in consume-all, steady-state and reject-and-continue modes on the three brokers; the delivered sequence of never-returned messages must be strictly increasing in enqueue order, nothing may starve, and a rejected message must come back before anything enqueued after its return.",
        "note": "Virtual time; fakes (RabbitMQ FIFO-per-priority and requeue-to-original-position are server rules of the fake); single priority per run.",
        "ref": "DESIGN.md 5/C15",
    },
    "C16": {
        "level": "exploration",
        "technique": "runtime monitoring: exhaustive bounded call sequences judged by a two-state handle machine with broker-call counting at the broker boundary",
        "text": "Exhaustive for the stated bounds: all 258 sequences of <= 3 message-API calls (ack, nack, reject, reschedule, retry, force_retry) x 3 categories x 2 retry-budget states on handles from Queue.get_messages on the in-memory broker (<= 2 calls on the Redis/RabbitMQ brokers); each call's outcome (success / ValueError), the number and kind of top-level broker calls it caused (0 on refusal) and the read-only flag are compared with the model. Inside actors: all pre-sequences of <= 3 (quick) / 4 (thorough) set_result/set_exception/add_callback calls x 6 eager responses: callback order with the result store at the position of the latest set_*, stored outcome, no statement after the response, no second report.",
        "note": "Bounded exhaustive (length 3 / 4); fakes for Redis/RabbitMQ.",
        "ref": "DESIGN.md 5/C16",
    },
    "C18": {
        "level": "exploration",
        "technique": "runtime monitoring: token-returning providers + reference evaluator over generated dependency DAGs, executed through real Workers",
        "text": "Random acyclic dependency graphs (<= 7 providers, shared sub-dependencies, sync/async mix, MessageDependency leaves, providers with defaulted plain parameters) are declared on generated actors whose payload parameters (positional-only, positional-or-keyword, keyword-only, defaults) are interleaved with the dependency parameters; providers return tokens encoding their own resolved inputs; a reference evaluator gives the expected token tree; three rounds per graph set: plain, after overrides (incl. overrides changing the sub-dependency set), with a reachable provider failing (must follow the retry rules: requeue then nack, body never runs). 17 unsupported declarations must raise ValueError at declaration / Depends() / override().",
        "note": "In-memory broker, both converters, virtual time.",
        "ref": "DESIGN.md 5/C18",
    },
    "C19": {
        "level": "exploration",
        "technique": "runtime monitoring: closed-form oracle over real function calls under an interposed, pinned wall clock",
        "text": "Every evaluation calls the real retry-policy factory, Parameters.compute_next_execution_time and the four is_overdue predicates under a wall clock pinned at the libc boundary and judges the result with closed-form inequalities; ~70k (quick) / ~2.6M (thorough) evaluations incl. boundary instants +-1us. Exploration is the right level: these are pure functions over an unbounded input space.",
        "note": "Trusts the LD_PRELOAD clock shim (self-checked per run); cron schedules unreachable (croniter absent); max_exponent capped at 20000.",
        "ref": "DESIGN.md 5/C19",
    },
}

SOURCE_COMMITS = []
NOTES = "Runtime monitoring of the real repid code; see DESIGN.md. Verdicts are 'held on the executions produced', never proofs."
NOT_APPLICABLE = {}
CHECKS = {
    "C19": {
        "level": "exploration",
        "technique": "runtime monitoring: closed-form oracle over real function calls under an interposed, pinned wall clock",
        "text": "Every evaluation calls the real retry-policy factory, Parameters.compute_next_execution_time and the four is_overdue predicates under a wall clock pinned at the libc boundary and judges the result with closed-form inequalities; ~70k (quick) / ~2.6M (thorough) evaluations incl. boundary instants +-1us. Exploration is the right level: these are pure functions over an unbounded input space.",
        "note": "Trusts the LD_PRELOAD clock shim (self-checked per run); cron schedules unreachable (croniter absent); max_exponent capped at 20000.",
        "ref": "DESIGN.md 5/C19",
    },
}

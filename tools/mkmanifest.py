#!/usr/bin/env python3
"""Regenerates MANIFEST.json from tools/manifest_data.py (single source of truth for check metadata)."""
import json, os, sys
HERE = os.path.dirname(os.path.dirname(os.path.abspath(__file__)))
sys.path.insert(0, os.path.join(HERE, "tools"))
import manifest_data as md

props = [json.loads(l) for l in open(os.path.join(HERE, "properties.jsonl"))]
checks = []
na = []
for p in props:
    pid = p["id"]
    if pid in md.CHECKS:
        c = md.CHECKS[pid]
        checks.append({
            "property_id": pid,
            "quick_cmd": f"./check {pid} --tier quick",
            "thorough_cmd": f"./check {pid} --tier thorough",
            "evidence_file": f"evidence/{pid}.json",
            "replay_cmd_template": f"./check {pid} --replay {{path}}",
            "engine": "rv-sim",
            "level_claimed": {"category": c["level"], "text": c["text"], "design_ref": c.get("ref", "DESIGN.md section 5")},
            "level_note": c["note"],
            "technique": c["technique"],
        })
    else:
        na.append({"property_id": pid, "reason": md.NOT_APPLICABLE.get(pid, "check not built yet in this session; see DESIGN.md section 11 (build order)")})
m = {
    "version": 1,
    "setup_cmd": "mkdir -p build && cc -O2 -shared -fPIC -o build/libvclock.so native/vclock.c -ldl && ./check selftest",
    "hooks": {
        "guard": "REPID_VERIF",
        "enable": "no source hooks: all instrumentation is harness-side (subclassing, class-level wrappers, LD_PRELOAD clock, asyncio.open_connection replacement); checks run /repo's working tree via PYTHONPATH",
        "baseline_off_cmd": "cd /repo && /venv/bin/python -m pytest -ra -q -p no:cacheprovider --timeout=900 --continue-on-collection-errors",
        "source_commits": md.SOURCE_COMMITS,
        "add_only": True,
    },
    "engines": [
        {"name": "rv-sim", "path": "rv/sim", "serves_properties": sorted(md.CHECKS), "kind_free_text": "virtual-time asyncio loop + libc clock interposition + in-memory wire + wire-level fake Redis/AMQP servers; real repid code on top"},
        {"name": "rv-monitors", "path": "rv/checks", "serves_properties": sorted(md.CHECKS), "kind_free_text": "boundary recorders, reference models and offline/online monitors per property"},
    ],
    "checks": checks,
    "not_applicable": na,
    "notes": md.NOTES,
}
json.dump(m, open(os.path.join(HERE, "MANIFEST.json"), "w"), indent=1)
print("checks:", [c["property_id"] for c in checks], "na:", [n["property_id"] for n in na])

#!/bin/bash
# tools/seeded_all.sh [names...]: re-confirm every stored seeded change against the CURRENT /repo tree (demo without/with
# the change, the repository's suite with the change, then the property's quick check) and refresh meta.json.
cd "$(dirname "$0")/.."
names=${@:-$(ls seeded | grep -E '^C[0-9]+-')}
for n in $names; do
  p=${n%%-*}
  extra=""
  [ -f seeded/$n/args ] && extra=$(cat seeded/$n/args)
  echo "=== $n"
  python3 tools/seeded.py $n $p seeded/$n $extra 2>&1 | grep -v "WARNING conda" | cut -c1-400
done

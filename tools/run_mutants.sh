#!/bin/bash
# tools/run_mutants.sh [filter]: runs every mutation of mutants/list.tsv against its check (quick tier) in a scratch copy
# and writes mutants/results.tsv (check, name, caught|MISSED|invalid, first VIOLATION line).
HERE="$(cd "$(dirname "$0")/.." && pwd)"
OUT="$HERE/mutants/results.tsv"
: > "$OUT.tmp"
while IFS=$'\t' read -r chk name spec; do
  [[ "$chk" == \#* || -z "$chk" ]] && continue
  [[ -n "${1:-}" && "$chk $name" != *"$1"* ]] && continue
  res=$("$HERE/tools/mut.sh" "$spec" "$chk" 2>&1)
  rc=$?
  line=$(echo "$res" | grep -m1 '^VIOLATION' | cut -c1-220)
  if echo "$res" | grep -q "MUTANT DID NOT CHANGE\|mutation failed\|patch failed"; then st=invalid; elif [ $rc -eq 1 ]; then st=caught; elif [ $rc -eq 2 ]; then st=inconclusive; else st=MISSED; fi
  printf "%s\t%s\t%s\t%s\n" "$chk" "$name" "$st" "$line" | tee -a "$OUT.tmp"
done < "$HERE/mutants/list.tsv"
mv "$OUT.tmp" "$OUT"

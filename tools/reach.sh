#!/bin/bash
# tools/reach.sh [tier]: line/branch reach of /repo/repid under the workloads of all twenty checks (coverage.py inside the
# shard workers), written to reach/REPORT.txt. A reach report, not a verdict: it shows what no workload executes.
cd "$(dirname "$0")/.."
tier=${1:-quick}
d=$(mktemp -d /tmp/reach.XXXXXX)
for i in $(seq -w 1 20); do
  RV_COVERAGE_DIR=$d ./check C$i --tier $tier --no-evidence >/dev/null 2>&1
done
mkdir -p reach
(cd $d && /venv/bin/python -m coverage combine -q --data-file=$d/.coverage $d/.coverage.* && /venv/bin/python -m coverage report --data-file=$d/.coverage -m --skip-empty) > reach/REPORT.txt 2>&1
tail -3 reach/REPORT.txt
rm -rf $d

#!/bin/bash
# tools/seeded_parallel.sh [streams] [tag] [property-regex]: re-runs every stored seeded change (of the properties matching the
# regex; default all) against the CURRENT /repo tree (demo without / with the change, then the property's quick check; the
# repository's suite is not repeated: see confirm*.log) in N parallel streams; summary in seeded/final-summary[-tag].txt
cd "$(dirname "$0")/.."
N=${1:-4}; TAG=${2:-}; RE=${3:-C[0-9]+}
names=($(ls seeded | grep -E "^(${RE})-"))
for k in $(seq 0 $((N-1))); do
  (
    for i in "${!names[@]}"; do
      if [ $((i % N)) -eq $k ]; then
        n=${names[$i]}; p=${n%%-*}; extra=""
        [ -f seeded/$n/args ] && extra=$(cat seeded/$n/args)
        echo "=== $n"
        python3 tools/seeded.py $n $p seeded/$n --skip-suite $extra 2>&1 | grep -v "WARNING conda" | cut -c1-300
      fi
    done
  ) > seeded/final${TAG:+-$TAG}-$k.log 2>&1 &
done
wait
grep -h "^=== \|caught=" seeded/final${TAG:+-$TAG}-*.log | paste - - | awk '{print $2, $NF}' | sort > seeded/final-summary${TAG:+-$TAG}.txt
grep -c "caught=True" seeded/final-summary${TAG:+-$TAG}.txt; grep -v "caught=True" seeded/final-summary${TAG:+-$TAG}.txt

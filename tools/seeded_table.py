#!/usr/bin/env python3
"""Writes seeded/README.md (and the 'needs'/'mechanism' fields of every meta.json) from the stored confirmation results."""
import json, os, sys
HERE = os.path.dirname(os.path.dirname(os.path.abspath(__file__)))
sys.path.insert(0, os.path.join(HERE, "tools"))
from seeded_needs import NEEDS

rows = []
for n in sorted(os.listdir(os.path.join(HERE, "seeded"))):
    mp = os.path.join(HERE, "seeded", n, "meta.json")
    if not os.path.exists(mp):
        continue
    m = json.load(open(mp))
    mech, needs = NEEDS.get(n, ("", ""))
    m["mechanism"], m["needs_to_manifest"] = mech, needs
    m["what_was_run"] = ("tools/seeded.py: demo_test.py on a scratch copy of /repo without and with patch.diff; the repository's suite with the change "
                         "(inside `unshare -rn`); then ./check <property> --tier quick with REPID_SRC pointing at the changed copy")
    json.dump(m, open(mp, "w"), indent=1)
    st = m.get("steps", {})
    conf = m.get("confirmed")
    caught = {c: v.get("caught") for c, v in m.get("checks", {}).items()}
    first = ""
    for c, v in m.get("checks", {}).items():
        for l in v.get("lines", []):
            if l.startswith("VIOLATION"):
                parts = l.split()
                first = " ".join(p for p in parts if p.startswith(("broker=", "rule=", "context=")))
                break
    rows.append((n, m["property"], mech, needs, conf, caught, first, m.get("repo_head", "")))

with open(os.path.join(HERE, "seeded", "README.md"), "w") as f:
    f.write("# Seeded breaking changes\n\nWritten by independent sub-agents that were given only a property's text and a scratch worktree "
            "(nothing from /verif). Each directory holds `patch.diff` (against /repo at `repo_head`; `patch.orig-<commit>.diff` is the agent's "
            "original where a later fix commit forced a re-base), `demo_test.py`, `NOTES.md` and `meta.json`. `confirmed` = demo passes without "
            "and fails with the change AND the repository's own suite passes with it. None of these is ever applied in /repo; "
            "`tools/seeded_all.sh` re-confirms all of them against the current tree.\n\n")
    f.write("| id | property | mechanism | needs to manifest | confirmed | caught by (quick) | first violation |\n|---|---|---|---|---|---|---|\n")
    for n, p, mech, needs, conf, caught, first, head in rows:
        c = ", ".join(f"{k}:{'yes' if v else 'NO'}" for k, v in caught.items())
        f.write(f"| {n} | {p} | {mech} | {needs} | {conf} @{head} | {c} | {first} |\n")
print(len(rows), "rows")

#!/bin/bash
# tools/run_all.sh [tier] [seed]: every check once; one summary line each (evidence is rewritten unless NOEV=1)
cd "$(dirname "$0")/.."
tier=${1:-quick}; seed=${2:-0}
for i in $(seq -w 1 20); do
  c=C$i
  ./check $c --tier $tier --seed $seed ${NOEV:+--no-evidence} 2>&1 | grep -E "^\[C|^VIOLATION|^INCONCLUSIVE|Traceback" | cut -c1-400
done

#!/usr/bin/env python3
"""tools/seeded.py <name> <property> <dir-with-patch.diff+demo_test.py> [--checks C01,C03]

Confirms an independently written breaking change in a scratch copy of /repo (outside /repo and /verif):
  1. the repository's own test-suite still passes with the change,
  2. the demonstration fails with the change and passes without it,
then runs the property's quick check (and optionally others) against the changed copy and stores everything under
/verif/seeded/<name>/ (patch.diff, demo_test.py, NOTES.md, meta.json). The scratch copy is removed afterwards.
"""
import json
import os
import shutil
import subprocess
import sys
import tempfile
import time

HERE = os.path.dirname(os.path.dirname(os.path.abspath(__file__)))
PY = "/venv/bin/python"


def run(cmd, cwd=None, env=None, timeout=1800):
    p = subprocess.run(cmd, cwd=cwd, env=env, stdout=subprocess.PIPE, stderr=subprocess.STDOUT, timeout=timeout, text=True)
    return p.returncode, p.stdout


def main():
    name, prop, src = sys.argv[1], sys.argv[2], sys.argv[3]
    checks = [prop]
    tier = "quick"
    skip_suite = "--skip-suite" in sys.argv
    deselect = [a.split("=", 1)[1] for a in sys.argv[4:] if a.startswith("--deselect=")]
    for a in sys.argv[4:]:
        if a.startswith("--checks"):
            checks = a.split("=", 1)[1].split(",")
        if a.startswith("--tier"):
            tier = a.split("=", 1)[1]
    src = os.path.abspath(src)
    patch = os.path.join(src, "patch.diff")
    demo = os.path.join(src, "demo_test.py")
    meta = {"name": name, "property": prop, "when": time.strftime("%Y-%m-%d %H:%M:%S"), "steps": {},
            "repo_head": subprocess.check_output(["git", "-C", "/repo", "rev-parse", "--short", "HEAD"], text=True).strip()}
    d = tempfile.mkdtemp(prefix="seeded.")
    try:
        subprocess.check_call(["rsync", "-a", "--exclude", ".git", "--exclude", "__pycache__", "--exclude", "OUT", "/repo/", d + "/"])
        env = dict(os.environ, PYTHONPATH=d, PYTHONDONTWRITEBYTECODE="1")
        shutil.copy(demo, os.path.join(d, "seeded_demo_test.py"))
        # demo on the unchanged tree
        dsel = [x for t in deselect for x in ("--deselect", "seeded_demo_test.py::" + t)]
        if deselect:
            meta["demo_deselected"] = deselect
        rc0, out0 = run([PY, "-m", "pytest", "-q", "-p", "no:cacheprovider", "--timeout=300", "seeded_demo_test.py"] + dsel, cwd=d, env=env)
        meta["steps"]["demo_without_change"] = {"rc": rc0, "tail": out0[-400:]}
        rc, out = run(["patch", "-p1", "-s", "-i", patch], cwd=d)
        if rc != 0:
            rc, out = run(["git", "apply", patch], cwd=d)
        meta["steps"]["apply"] = {"rc": rc, "out": out[-300:]}
        if rc != 0:
            print("PATCH DOES NOT APPLY", out)
            meta["confirmed"] = False
        else:
            rc1, out1 = run([PY, "-m", "pytest", "-q", "-p", "no:cacheprovider", "--timeout=300", "seeded_demo_test.py"] + dsel, cwd=d, env=env)
            meta["steps"]["demo_with_change"] = {"rc": rc1, "tail": out1[-600:]}
            if skip_suite:
                rc2, out2 = -1, "skipped in this invocation"
            else:
                # private network namespace: the suite's health-check tests bind fixed ports
                inner = f"ip link set lo up; cd {d} && PYTHONPATH={d} {PY} -m pytest -q -p no:cacheprovider --timeout=900 tests --ignore=tests/integration --deselect tests/test_hypothesis.py::test_job_creation"
                rc2, out2 = run(["unshare", "-rn", "bash", "-c", inner], cwd=d, env=env)
                meta["steps"]["suite_with_change"] = {"rc": rc2, "tail": out2[-300:]}
            meta["confirmed"] = bool(rc0 == 0 and rc1 != 0 and rc2 == 0) if not skip_suite else None
            print(f"demo without change rc={rc0}, with change rc={rc1}, suite with change rc={rc2} -> confirmed={meta['confirmed']}")
            meta["checks"] = {}
            for c in checks:
                env2 = dict(os.environ, REPID_SRC=d)
                t0 = time.time()
                rcc, outc = run([os.path.join(HERE, "check"), c, "--tier", tier, "--no-evidence"], cwd=HERE, env=env2, timeout=3600)
                lines = [l for l in outc.splitlines() if l.startswith(("VIOLATION", "[C", "INCONCLUSIVE"))]
                meta["checks"][c] = {"rc": rcc, "caught": rcc == 1, "wall_s": round(time.time() - t0, 1), "lines": [l[:400] for l in lines[:6]]}
                print(f"check {c}: rc={rcc} caught={rcc == 1}")
                for l in lines[:4]:
                    print("   ", l[:300])
    finally:
        shutil.rmtree(d, ignore_errors=True)
    dst = os.path.join(HERE, "seeded", name)
    os.makedirs(dst, exist_ok=True)
    if os.path.realpath(src) != os.path.realpath(dst):
        shutil.copy(patch, os.path.join(dst, "patch.diff"))
        shutil.copy(demo, os.path.join(dst, "demo_test.py"))
    if os.path.realpath(src) != os.path.realpath(dst) and os.path.exists(os.path.join(src, "NOTES.md")):
        shutil.copy(os.path.join(src, "NOTES.md"), os.path.join(dst, "NOTES.md"))
    old = {}
    mp = os.path.join(dst, "meta.json")
    if os.path.exists(mp):
        old = json.load(open(mp))
    if skip_suite and "confirmed" in old:
        # a run without the repository's suite refreshes demo and check results only: the earlier full confirmation stands
        meta.pop("confirmed", None)
        if "confirmed_at" not in old:
            old["confirmed_at"] = old.get("repo_head")
        steps = dict(old.get("steps", {}))
        steps.update({k: v for k, v in meta.get("steps", {}).items() if not (k == "suite_with_change" and v.get("rc") == -1)})
        meta["steps"] = steps
    elif not skip_suite:
        meta["confirmed_at"] = meta.get("repo_head")
    old.update(meta)
    json.dump(old, open(mp, "w"), indent=1)


if __name__ == "__main__":
    main()

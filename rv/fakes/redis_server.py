"""Wire-level fake Redis (RESP2, RESP3 after HELLO 3) for the command subset repid/redis-py issue.

One command, or one MULTI/EXEC block, executes atomically. Keys with an expiry are checked against the
(virtual) wall clock. Unknown commands answer -ERR and are counted (a non-zero count makes a run
inconclusive). ``gate`` (optional ``async (label, cmd) -> None``) is awaited before a command executes; it
is how a scheduler orders the round-trips of different client processes.
"""
from __future__ import annotations

import fnmatch
import time


class RMap(dict):
    pass


class RDbl(float):
    pass


class RErr(Exception):
    pass


class RPairs(list):
    """[(member, score), ...]: RESP3 answers an array of [member, double] pairs, RESP2 a flat array of bulk strings"""


def enc(v, p3=True):
    if v is None:
        return b"_\r\n" if p3 else b"$-1\r\n"
    if isinstance(v, RPairs):
        if p3:
            return enc([[m, RDbl(x)] for m, x in v], p3)
        return enc([y for m, x in v for y in (m, _fmt_score(float(x)))], p3)
    if isinstance(v, RMap):
        if p3:
            return b"%%%d\r\n" % len(v) + b"".join(enc(k, p3) + enc(x, p3) for k, x in v.items())
        return enc([y for kv in v.items() for y in kv], p3)
    if isinstance(v, bool):
        return (b"#t\r\n" if v else b"#f\r\n") if p3 else b":%d\r\n" % int(v)
    if isinstance(v, RDbl):
        return b",%s\r\n" % _fmt_score(float(v)) if p3 else enc(_fmt_score(float(v)), p3)
    if isinstance(v, int):
        return b":%d\r\n" % v
    if isinstance(v, bytes):
        return b"$%d\r\n%s\r\n" % (len(v), v)
    if isinstance(v, str):
        return b"+%s\r\n" % v.encode()
    if isinstance(v, Exception):
        return b"-%s\r\n" % str(v).encode()
    if isinstance(v, (list, tuple)):
        return b"*%d\r\n" % len(v) + b"".join(enc(x, p3) for x in v)
    raise TypeError(v)


def _fmt_score(v: float) -> bytes:
    if v == int(v) and abs(v) < 1e17:
        return str(int(v)).encode()
    return repr(v).encode()


async def read_cmd(r):
    line = await r.readline()
    if not line:
        return None
    if not line.startswith(b"*"):
        return [x for x in line.strip().split()]  # inline command
    n = int(line[1:])
    out = []
    for _ in range(n):
        hdr = await r.readline()
        ln = int(hdr[1:])
        d = await r.readexactly(ln + 2)
        out.append(d[:-2])
    return out


HANDSHAKE = (b"HELLO", b"CLIENT", b"PING", b"SELECT", b"AUTH")


class FakeRedis:
    def __init__(self):
        self.d: dict[bytes, object] = {}
        self.exp: dict[bytes, float] = {}
        self.log: list = []  # (label, [cmd...]) in execution order
        self.unknown: list = []
        self.gate = None
        self.fail_next = None  # optional callable(label, cmd) -> Exception|None (fault injection)
        self.ncmds = 0
        self.keep_log = True
        self.double_takes: list = []
        self.deleted_message_ids: list = []  # ids whose data hash was deleted (= acknowledged)

    def now(self) -> float:
        return time.time()

    async def handle(self, r, w, label):
        multi = None
        p3 = False
        try:
            while True:
                c = await read_cmd(r)
                if c is None or not c:
                    break
                name = c[0].upper()
                if name == b"HELLO":
                    p3 = len(c) > 1 and c[1] == b"3"
                if name == b"MULTI":
                    multi = []
                    w.write(enc("OK", p3))
                    continue
                if name == b"DISCARD":
                    multi = None
                    w.write(enc("OK", p3))
                    continue
                if name == b"EXEC":
                    if multi is None:
                        w.write(enc(RErr("ERR EXEC without MULTI"), p3))
                        continue
                    if self.gate is not None:
                        await self.gate(label, [b"EXEC"] + [m[0].upper() for m in multi])
                    if self.keep_log:
                        self.log.append((label, "EXEC", multi))
                    res = [self.ex(label, x) for x in multi]
                    # a take (remove from a queue + mark processing) whose removal found nothing: the name was
                    # taken by somebody else between this client's read and its transaction
                    for i, x in enumerate(multi):
                        if x[0].upper() in (b"LREM", b"ZREM") and res[i] == 0 and x[1] != b"processing":
                            if any(y[0].upper() == b"ZADD" and y[1] == b"processing" for y in multi[i + 1:]):
                                self.double_takes.append((label, x[-1].decode(errors="replace"), self.now()))
                    multi = None
                    w.write(enc(res, p3))
                    continue
                if multi is not None:
                    multi.append(c)
                    w.write(enc("QUEUED", p3))
                    continue
                if self.gate is not None and name not in HANDSHAKE:
                    await self.gate(label, c)
                if self.keep_log:
                    self.log.append((label, c))
                w.write(enc(self.ex(label, c), p3))
        except (ConnectionError, EOFError, ValueError):
            pass
        finally:
            try:
                w.close()
            except Exception:  # noqa: BLE001
                pass

    # ---- execution
    def _live(self, k):
        e = self.exp.get(k)
        if e is not None and self.now() >= e:
            self.d.pop(k, None)
            self.exp.pop(k, None)
        return self.d.get(k)

    def ex(self, label, c):
        self.ncmds += 1
        n = c[0].upper()
        a = c[1:]
        fn = getattr(self, "c_" + n.decode(errors="replace"), None)
        if fn is None:
            self.unknown.append([x[:40] for x in c])
            return RErr("ERR unknown command '%s'" % n.decode(errors="replace"))
        if self.fail_next is not None:
            exc = self.fail_next(label, c)
            if exc is not None:
                return exc
        try:
            return fn(*a)
        except RErr as e:
            return e
        except (TypeError, ValueError, IndexError) as e:
            return RErr(f"ERR bad arguments for '{n.decode()}': {e}")

    def _typed(self, k, typ, create=False):
        v = self._live(k)
        if v is None:
            if not create:
                return None
            v = typ()
            self.d[k] = v
            return v
        if not isinstance(v, typ):
            raise RErr("WRONGTYPE Operation against a key holding the wrong kind of value")
        return v

    def c_PING(self, *a):
        return "PONG"

    def c_CLIENT(self, *a):
        return "OK"

    def c_SELECT(self, *a):
        return "OK"

    def c_AUTH(self, *a):
        return "OK"

    def c_WATCH(self, *a):
        return "OK"

    def c_UNWATCH(self, *a):
        return "OK"

    def c_HELLO(self, *a):
        return RMap({b"server": b"redis", b"version": b"7.2.0", b"proto": 3 if a and a[0] == b"3" else 2, b"id": 1,
                     b"mode": b"standalone", b"role": b"master", b"modules": []})

    # hashes
    def c_HSETNX(self, k, f, v):
        h = self._typed(k, dict, create=True)
        if f in h:
            return 0
        h[f] = v
        return 1

    def c_HSET(self, k, *fv):
        if len(fv) % 2 or not fv:
            raise RErr("ERR wrong number of arguments for 'hset' command")
        h = self._typed(k, dict, create=True)
        n = 0
        for i in range(0, len(fv), 2):
            if fv[i] not in h:
                n += 1
            h[fv[i]] = fv[i + 1]
        return n

    def c_HGET(self, k, f):
        return (self._typed(k, dict) or {}).get(f)

    def c_HMGET(self, k, *fs):
        h = self._typed(k, dict) or {}
        return [h.get(f) for f in fs]

    def c_HGETALL(self, k):
        return RMap(dict(self._typed(k, dict) or {}))

    def c_HDEL(self, k, *fs):
        h = self._typed(k, dict)
        if h is None:
            return 0
        n = 0
        for f in fs:
            if f in h:
                del h[f]
                n += 1
        if not h:
            self.d.pop(k, None)
        return n

    # generic
    def c_DEL(self, *ks):
        n = 0
        for k in ks:
            if k.startswith(b"m:"):
                self.deleted_message_ids.append(k.decode().split(":")[-1])
            if self._live(k) is not None:
                del self.d[k]
                self.exp.pop(k, None)
                n += 1
        return n

    def c_EXISTS(self, *ks):
        return sum(1 for k in ks if self._live(k) is not None)

    # key expiry for any key type (the server decides when a key is gone)
    def _set_exp(self, k, when, *opts):
        if self._live(k) is None:
            return 0
        o = {x.upper() for x in opts}
        cur = self.exp.get(k)
        if (b"NX" in o and cur is not None) or (b"XX" in o and cur is None) or (b"GT" in o and (cur is None or when <= cur)) or (b"LT" in o and cur is not None and when >= cur):
            return 0
        if when <= self.now():
            self.d.pop(k, None)
            self.exp.pop(k, None)
            return 1
        self.exp[k] = when
        return 1

    def c_EXPIREAT(self, k, ts, *o):
        return self._set_exp(k, float(int(ts)), *o)

    def c_PEXPIREAT(self, k, ms, *o):
        return self._set_exp(k, int(ms) / 1000.0, *o)

    def c_EXPIRE(self, k, sec, *o):
        return self._set_exp(k, self.now() + int(sec), *o)

    def c_PEXPIRE(self, k, ms, *o):
        return self._set_exp(k, self.now() + int(ms) / 1000.0, *o)

    def c_PERSIST(self, k):
        return 1 if self._live(k) is not None and self.exp.pop(k, None) is not None else 0

    def c_PTTL(self, k):
        if self._live(k) is None:
            return -2
        if k not in self.exp:
            return -1
        return int((self.exp[k] - self.now()) * 1000)

    def c_TTL(self, k):
        if self._live(k) is None:
            return -2
        if k not in self.exp:
            return -1
        return int(self.exp[k] - self.now())

    def c_GET(self, k):
        v = self._live(k)
        if v is None:
            return None
        if not isinstance(v, bytes):
            raise RErr("WRONGTYPE Operation against a key holding the wrong kind of value")
        return v

    def c_SET(self, k, v, *o):
        o = list(o)
        exp = None
        i = 0
        while i < len(o):
            opt = o[i].upper()
            if opt == b"EXAT":
                exp = float(int(o[i + 1])); i += 2
            elif opt == b"PXAT":
                exp = int(o[i + 1]) / 1000.0; i += 2
            elif opt == b"EX":
                exp = self.now() + int(o[i + 1]); i += 2
            elif opt == b"PX":
                exp = self.now() + int(o[i + 1]) / 1000.0; i += 2
            else:
                raise RErr("ERR syntax error")
        self.d[k] = v
        self.exp.pop(k, None)
        if exp is not None:
            self.exp[k] = exp
        return "OK"

    # lists
    def c_LPUSH(self, k, *vs):
        lst = self._typed(k, list, create=True)
        for v in vs:
            lst.insert(0, v)
        return len(lst)

    def c_RPUSH(self, k, *vs):
        lst = self._typed(k, list, create=True)
        lst.extend(vs)
        return len(lst)

    def c_LLEN(self, k):
        return len(self._typed(k, list) or [])

    def c_LRANGE(self, k, s, e):
        lst = self._typed(k, list) or []
        s, e, n = int(s), int(e), len(lst)
        if s < 0:
            s = max(n + s, 0)
        if e < 0:
            e = n + e
        if s > e or s >= n:
            return []
        return list(lst[s:e + 1])

    def c_LREM(self, k, count, v):
        lst = self._typed(k, list)
        count = int(count)
        if lst is None:
            return 0
        n = 0
        if count < 0:
            i = len(lst) - 1
            while i >= 0 and n < -count:
                if lst[i] == v:
                    del lst[i]
                    n += 1
                i -= 1
        else:
            i = 0
            while i < len(lst) and (count == 0 or n < count):
                if lst[i] == v:
                    del lst[i]
                    n += 1
                else:
                    i += 1
        if not lst:
            self.d.pop(k, None)
        return n

    # sorted sets (dict member -> score)
    class ZSet(dict):
        pass

    def c_ZADD(self, k, *a):
        a = list(a)
        flags = set()
        while a and a[0].upper() in (b"NX", b"XX", b"GT", b"LT", b"CH"):
            flags.add(a.pop(0).upper())
        if a and a[0].upper() == b"INCR":
            raise RErr("ERR INCR not implemented in fake")
        if len(a) % 2 or not a or (b"NX" in flags and flags & {b"XX", b"GT", b"LT"}):
            raise RErr("ERR syntax error")
        z = self._typed(k, FakeRedis.ZSet, create=True)
        added = changed = 0
        for i in range(0, len(a), 2):
            m, v = a[i + 1], float(a[i])
            if m not in z:
                if b"XX" in flags:
                    continue
                added += 1
                z[m] = v
                continue
            if b"NX" in flags or (b"GT" in flags and not v > z[m]) or (b"LT" in flags and not v < z[m]):
                continue
            if z[m] != v:
                changed += 1
            z[m] = v
        return added + (changed if b"CH" in flags else 0)

    def c_ZREM(self, k, *ms):
        z = self._typed(k, FakeRedis.ZSet)
        if z is None:
            return 0
        n = 0
        for m in ms:
            if m in z:
                del z[m]
                n += 1
        if not z:
            self.d.pop(k, None)
        return n

    def c_ZSCORE(self, k, m):
        z = self._typed(k, FakeRedis.ZSet) or {}
        return RDbl(z[m]) if m in z else None

    def c_ZCARD(self, k):
        return len(self._typed(k, FakeRedis.ZSet) or {})

    def _zsorted(self, k):
        z = self._typed(k, FakeRedis.ZSet) or {}
        return sorted(z.items(), key=lambda kv: (kv[1], kv[0]))

    @staticmethod
    def _score(x: bytes):
        x = x.decode()
        excl = x.startswith("(")
        if excl:
            x = x[1:]
        v = float("-inf") if x == "-inf" else float("inf") if x in ("+inf", "inf") else float(x)
        return v, excl

    def c_ZRANGE(self, k, s, e, *opt):
        items = self._zsorted(k)
        opt = [o.upper() for o in opt]
        if b"REV" in opt:
            raise RErr("ERR REV not implemented in fake")
        if b"BYSCORE" in opt:
            (lo, lox), (hi, hix) = self._score(s), self._score(e)
            sel = [m for m, v in items if (v > lo if lox else v >= lo) and (v < hi if hix else v <= hi)]
            if b"LIMIT" in opt:
                i = opt.index(b"LIMIT")
                off, cnt = int(opt[i + 1]), int(opt[i + 2])
                sel = sel[off:off + cnt] if cnt >= 0 else sel[off:]
            if b"WITHSCORES" in opt:
                d = dict(items)
                return RPairs([(m, d[m]) for m in sel])
            return sel
        s, e, n = int(s), int(e), len(items)
        if s < 0:
            s = max(n + s, 0)
        if e < 0:
            e = n + e
        if s > e or s >= n:
            return []
        if b"WITHSCORES" in opt:
            return RPairs(items[s:e + 1])
        return [m for m, v in items[s:e + 1]]

    def c_ZSCAN(self, k, cur, *o):
        # RESP3 redis 7.2 still answers a flat [member, score, ...] array of bulk strings
        return [b"0", [x for m, v in self._zsorted(k) for x in (m, _fmt_score(v))]]

    def c_SCAN(self, cur, *o):
        pat = b"*"
        o = list(o)
        for i in range(len(o)):
            if o[i].upper() == b"MATCH":
                pat = o[i + 1]
        keys = [k for k in list(self.d) if self._live(k) is not None and _glob(pat.decode(), k.decode())]
        return [b"0", keys]


def _glob(pat: str, s: str) -> bool:
    # redis glob: * ? [..] and backslash escapes; fnmatchcase is the same for the patterns repid builds
    return fnmatch.fnmatchcase(s, pat)

"""Wire-level fake AMQP 0-9-1 broker (built on pamqp) for the subset repid/aiormq use.

Documented RabbitMQ rules implemented (numbers as in DESIGN.md 3.4):
 R1 per-queue priority (x-max-priority) then FIFO;
 R2 per-message TTL: a message is expired (dead-lettered) when it reaches the HEAD of its queue expired, not
    before; the expiration property is removed when dead-lettering because of expiry   [switch: head_expiry]
 R3 nack/reject(requeue=false) dead-letters through the queue's DLX/routing key;
 R4 reject/nack(requeue=true) puts the message back at its ORIGINAL position, redelivered=true
    [switch: requeue_original_position]
 R5 basic.qos(global=false): the prefetch value in force when a consumer is created limits that consumer's
    unacked messages (0 = unlimited); later basic.qos applies to consumers created afterwards
    [switch: qos_applies_to_existing]; dispatch is round-robin over consumers with capacity;
 R6 closing a channel/connection requeues its unacked messages;
 R7 delivery tags are per-channel counters.
"""
from __future__ import annotations

import asyncio
import copy
import itertools
import time

from pamqp import body, commands as spec, frame as pframe, header


class Msg:
    __slots__ = ("props", "body", "expire_at", "redelivered", "seq")

    def __init__(self, props, body_, expire_at, seq):
        self.props = props
        self.body = body_
        self.expire_at = expire_at
        self.redelivered = False
        self.seq = seq


class Q:
    def __init__(self, name, args):
        self.name = name
        self.args = args or {}
        self.msgs: list[Msg] = []

    def prio(self, m):
        mx = self.args.get("x-max-priority")
        p = m.props.priority or 0
        return min(p, mx) if mx is not None else 0

    def push(self, m):
        p = self.prio(m)
        i = len(self.msgs)
        while i > 0 and self.prio(self.msgs[i - 1]) < p:
            i -= 1
        self.msgs.insert(i, m)

    def requeue(self, m, original_position=True):
        if not original_position:
            self.push(m)
            return
        p = self.prio(m)
        i = 0
        while i < len(self.msgs) and (self.prio(self.msgs[i]) > p or (self.prio(self.msgs[i]) == p and self.msgs[i].seq < m.seq)):
            i += 1
        self.msgs.insert(i, m)


GATED = {"Basic.Publish", "Basic.Ack", "Basic.Nack", "Basic.Reject", "Basic.Consume", "Basic.Cancel", "Basic.Qos", "Basic.Get"}


class FakeAMQP:
    def __init__(self, head_expiry=True, requeue_original_position=True, qos_applies_to_existing=False, deliver_before_confirm="never", rnd=None):
        self.q: dict[str, Q] = {}
        self.conns: list[Conn] = []
        self.head_expiry = head_expiry
        self.requeue_original_position = requeue_original_position
        self.qos_applies_to_existing = qos_applies_to_existing
        # a consumer may receive a freshly published message before its publisher gets the confirm (both orders are legal)
        self.deliver_before_confirm = deliver_before_confirm  # "never" | "always" | "random"
        self.rnd = rnd
        self.log: list = []
        self.unknown: list = []
        self.gate = None
        self._seq = itertools.count()
        self._rr = 0
        self._kicked = False
        self._timer = None
        self.deliveries: list = []  # (label, consumer_tag, queue, message_id, t)
        self.dead_lettered: list = []  # (queue, message_id, reason, t)
        self.acked_ids: list = []
        self.precondition_failed: list = []  # (client, channel, delivery tag, action): double settlements
        self.keep_log = True
        self.requeued_ids: list = []  # message ids the server saw returned (reject / nack with requeue), in order

    def now(self):
        return time.time()

    # ---- queue logic
    def publish(self, rk, props, bd):
        q = self.q.get(rk)
        if q is None:
            return False
        exp = None
        if props.expiration not in (None, ""):
            exp = self.now() + int(props.expiration) / 1000.0
        q.push(Msg(props, bd, exp, next(self._seq)))
        self.kick()
        return True

    def dead_letter(self, q, m, reason):
        dlx = q.args.get("x-dead-letter-exchange")
        rk = q.args.get("x-dead-letter-routing-key")
        self.dead_lettered.append((q.name, m.props.message_id, reason, self.now()))
        if dlx is None:
            return  # dropped
        props = copy.copy(m.props)
        exp = None
        if reason == "expired":
            props.expiration = None
        elif props.expiration not in (None, ""):
            exp = self.now() + int(props.expiration) / 1000.0  # TTL applies afresh in the target queue
        tq = self.q.get(rk if rk is not None else q.name)
        if tq is not None:
            tq.push(Msg(props, m.body, exp, next(self._seq)))

    def expire(self):
        nxt = None
        now = self.now()
        for q in list(self.q.values()):
            while q.msgs:
                cand = q.msgs[:1] if self.head_expiry else [m for m in q.msgs if m.expire_at is not None]
                hit = None
                for m in cand:
                    if m.expire_at is not None and m.expire_at <= now:
                        hit = m
                        break
                if hit is None:
                    break
                q.msgs.remove(hit)
                self.dead_letter(q, hit, "expired")
            for m in (q.msgs[:1] if self.head_expiry else q.msgs):
                if m.expire_at is not None:
                    nxt = m.expire_at if nxt is None else min(nxt, m.expire_at)
        return nxt

    def kick(self):
        if self._kicked:
            return
        self._kicked = True
        asyncio.get_running_loop().call_soon(self.dispatch)

    def server_cancel(self, queue=None):
        """Consumer cancel notification (what a broker sends when it takes a consumer away: queue moved to another node,
        policy change): Basic.Cancel to the client, the consumer is gone, its unacknowledged deliveries stay on the channel."""
        n = 0
        for c, ch, tag, co in self._consumers():
            if queue is None or co["queue"] == queue:
                ch.consumers.pop(tag, None)
                chn = next(k for k, v in c.channels.items() if v is ch)
                c.send(chn, spec.Basic.Cancel(consumer_tag=tag, nowait=True))
                n += 1
        return n

    def _consumers(self):
        out = []
        for c in self.conns:
            for ch in c.channels.values():
                for tag, cons in ch.consumers.items():
                    out.append((c, ch, tag, cons))
        return out

    def dispatch(self):
        self._kicked = False
        nxt = self.expire()
        progress = True
        while progress:
            progress = False
            cons = self._consumers()
            if not cons:
                break
            n = len(cons)
            for i in range(n):
                c, ch, tag, co = cons[(self._rr + i) % n]
                q = self.q.get(co["queue"])
                if q is None or not q.msgs:
                    continue
                limit = ch.prefetch if self.qos_applies_to_existing else co["prefetch"]
                if limit and co["unacked"] >= limit:
                    continue
                m = q.msgs.pop(0)
                ch.deliver(tag, co, m)
                self._rr = (self._rr + i + 1) % n
                progress = True
                break
            if progress:
                nxt = self.expire()
        if nxt is not None:
            loop = asyncio.get_running_loop()
            if self._timer is not None:
                self._timer.cancel()
            self._timer = loop.call_at(loop.time() + max(0.0, nxt - self.now()), self.dispatch)

    async def handle(self, r, w, label):
        c = Conn(self, r, w, label)
        self.conns.append(c)
        try:
            await c.run()
        except (ConnectionError, asyncio.IncompleteReadError):
            pass
        finally:
            c.drop()
            if c in self.conns:
                self.conns.remove(c)
            try:
                w.close()
            except Exception:  # noqa: BLE001
                pass
            try:
                self.kick()
            except RuntimeError:
                pass


class Chan:
    def __init__(self, conn, n):
        self.conn = conn
        self.n = n
        self.consumers: dict[str, dict] = {}
        self.unacked: dict[int, tuple] = {}  # dtag -> (qname, Msg, consumer_tag)
        self.prefetch = 0
        self.dtag = 0
        self.ptag = 0
        self.confirm = False
        self.ctag_seq = 0

    def deliver(self, tag, co, m):
        self.dtag += 1
        self.unacked[self.dtag] = (co["queue"], m, tag)
        co["unacked"] += 1
        srv = self.conn.srv
        srv.deliveries.append((self.conn.label, tag, co["queue"], m.props.message_id, srv.now()))
        self.conn.send(self.n, spec.Basic.Deliver(consumer_tag=tag, delivery_tag=self.dtag, redelivered=m.redelivered, exchange="", routing_key=co["queue"]))
        self.conn.send(self.n, header.ContentHeader(0, len(m.body), m.props))
        if m.body:
            fm = 131072 - 8
            for i in range(0, len(m.body), fm):
                self.conn.send(self.n, body.ContentBody(m.body[i:i + fm]))

    def settle(self, dtag, how, requeue=False, multiple=False):
        tags = [t for t in sorted(self.unacked) if t <= dtag] if multiple else [dtag]
        if not multiple and dtag not in self.unacked:
            # RabbitMQ: settling a delivery twice (or a tag it never issued) is a channel error
            self.conn.srv.precondition_failed.append((self.conn.label, self.n, dtag, how))
            self.conn.fail_channel(self.n, 406, f"PRECONDITION_FAILED - unknown delivery tag {dtag}", 60, {"ack": 80, "nack": 120, "reject": 90}[how])
            return
        for t in tags:
            it = self.unacked.pop(t, None)
            if it is None:
                continue
            qname, m, ctag = it
            co = self.consumers.get(ctag)
            if co is not None:
                co["unacked"] = max(0, co["unacked"] - 1)
            srv = self.conn.srv
            q = srv.q.get(qname)
            if how == "ack":
                srv.acked_ids.append(m.props.message_id)
            elif requeue:
                m.redelivered = True
                srv.requeued_ids.append(m.props.message_id)
                if q is not None:
                    q.requeue(m, srv.requeue_original_position)
            else:
                if q is not None:
                    srv.dead_letter(q, m, "rejected")
        try:
            self.conn.srv.kick()
        except RuntimeError:
            pass

    def requeue_all(self):
        for dtag in list(self.unacked):
            self.settle(dtag, "reject", requeue=True)


class Conn:
    def __init__(self, srv, r, w, label):
        self.srv = srv
        self.r = r
        self.w = w
        self.label = label
        self.channels: dict[int, Chan] = {}
        self.pending = {}

    def send(self, ch, fr):
        self.w.write(pframe.marshal(fr, ch))

    def drop(self):
        for ch in self.channels.values():
            ch.requeue_all()
            ch.consumers.clear()
        self.channels.clear()

    async def run(self):
        await self.r.readexactly(8)
        self.send(0, spec.Connection.Start(
            version_major=0, version_minor=9,
            server_properties={"product": "fake-rabbit", "version": "3.12.0", "capabilities": {
                "publisher_confirms": True, "basic.nack": True, "consumer_cancel_notify": True,
                "authentication_failure_close": True, "per_consumer_qos": True}},
            mechanisms="PLAIN", locales="en_US"))
        buf = b""
        while True:
            d = await self.r.read(1 << 16)
            if not d:
                return
            buf += d
            while buf:
                try:
                    n, ch, fr = pframe.unmarshal(buf)
                except Exception:  # noqa: BLE001  (incomplete frame)
                    break
                buf = buf[n:]
                nm = getattr(fr, "name", "")
                if self.srv.gate is not None and nm in GATED and nm != "Basic.Publish":
                    await self.srv.gate(self.label, nm)
                if self.on(ch, fr) == "close":
                    return

    def fail_channel(self, chn, code, text, class_id, method_id):
        ch = self.channels.pop(chn, None)
        if ch is not None:
            ch.requeue_all()
        self.send(chn, spec.Channel.Close(reply_code=code, reply_text=text, class_id=class_id, method_id=method_id))

    def on(self, chn, fr):
        nm = getattr(fr, "name", "")
        srv = self.srv
        ch = self.channels.get(chn)
        if srv.keep_log:
            srv.log.append((self.label, chn, nm or type(fr).__name__))
        if type(fr).__name__ == "Heartbeat":
            self.send(0, fr)
        elif nm == "Connection.StartOk":
            self.send(0, spec.Connection.Tune(channel_max=2047, frame_max=131072, heartbeat=0))
        elif nm == "Connection.TuneOk":
            pass
        elif nm == "Connection.Open":
            self.send(0, spec.Connection.OpenOk())
        elif nm == "Connection.Close":
            self.send(0, spec.Connection.CloseOk())
            return "close"
        elif nm == "Connection.CloseOk":
            return "close"
        elif nm == "Channel.Open":
            self.channels[chn] = Chan(self, chn)
            self.send(chn, spec.Channel.OpenOk())
        elif nm == "Channel.Close":
            if ch is not None:
                ch.requeue_all()
                del self.channels[chn]
            self.send(chn, spec.Channel.CloseOk())
        elif nm == "Channel.CloseOk":
            pass
        elif nm == "Confirm.Select":
            ch.confirm = True
            self.send(chn, spec.Confirm.SelectOk())
        elif nm == "Queue.Declare":
            if fr.queue not in srv.q:
                srv.q[fr.queue] = Q(fr.queue, fr.arguments)
            q = srv.q[fr.queue]
            self.send(chn, spec.Queue.DeclareOk(fr.queue, len(q.msgs), 0))
            srv.kick()
        elif nm == "Queue.Purge":
            q = srv.q.get(fr.queue)
            n = len(q.msgs) if q else 0
            if q:
                q.msgs.clear()
            self.send(chn, spec.Queue.PurgeOk(n))
        elif nm == "Queue.Delete":
            q = srv.q.pop(fr.queue, None)
            self.send(chn, spec.Queue.DeleteOk(len(q.msgs) if q else 0))
        elif nm == "Basic.Qos":
            ch.prefetch = fr.prefetch_count
            self.send(chn, spec.Basic.QosOk())
            srv.kick()
        elif nm == "Basic.Publish":
            self.pending[chn] = [fr, None, b""]
        elif isinstance(fr, header.ContentHeader):
            self.pending[chn][1] = fr
            if fr.body_size == 0:
                self.finish_publish(chn)
        elif isinstance(fr, body.ContentBody):
            p = self.pending[chn]
            p[2] += fr.value
            if len(p[2]) >= p[1].body_size:
                self.finish_publish(chn)
        elif nm == "Basic.Consume":
            ch.ctag_seq += 1
            tag = fr.consumer_tag or f"ctag-{self.label}-{chn}-{ch.ctag_seq}"
            ch.consumers[tag] = {"queue": fr.queue, "no_ack": fr.no_ack, "prefetch": ch.prefetch, "unacked": 0}
            self.send(chn, spec.Basic.ConsumeOk(consumer_tag=tag))
            srv.kick()
        elif nm == "Basic.Cancel":
            ch.consumers.pop(fr.consumer_tag, None)
            self.send(chn, spec.Basic.CancelOk(consumer_tag=fr.consumer_tag))
        elif nm == "Basic.Ack":
            ch.settle(fr.delivery_tag, "ack", multiple=fr.multiple)
        elif nm == "Basic.Nack":
            ch.settle(fr.delivery_tag, "nack", requeue=fr.requeue, multiple=fr.multiple)
        elif nm == "Basic.Reject":
            ch.settle(fr.delivery_tag, "reject", requeue=fr.requeue)
        else:
            srv.unknown.append(nm or repr(fr))
        return None

    def finish_publish(self, chn):
        m, h, b = self.pending.pop(chn)
        ch = self.channels[chn]
        ok = self.srv.publish(m.routing_key, h.properties, b) if m.exchange == "" else False
        if not ok and m.mandatory:
            self.send(chn, spec.Basic.Return(reply_code=312, reply_text="NO_ROUTE", exchange=m.exchange, routing_key=m.routing_key))
            self.send(chn, header.ContentHeader(0, len(b), h.properties))
            if b:
                self.send(chn, body.ContentBody(b))
        dbc = self.srv.deliver_before_confirm
        if ok and (dbc == "always" or (dbc == "random" and self.srv.rnd is not None and self.srv.rnd.random() < 0.5)):
            self.srv._kicked = False
            self.srv.dispatch()  # deliveries go on the wire now, ahead of the confirm below
        if ch.confirm:
            ch.ptag += 1
            self.send(chn, spec.Basic.Ack(delivery_tag=ch.ptag))

"""Worker: runs a shard of cases of one check, one JSON result line per case."""
from __future__ import annotations

import importlib
import json
import logging
import signal
import sys
import time
import traceback
import warnings


class CaseTimeout(BaseException):
    pass


def _alarm(signum, frame):
    raise CaseTimeout()


def main():
    prop, inp, out, case_timeout = sys.argv[1], sys.argv[2], sys.argv[3], float(sys.argv[4])
    # logging as in an application that configured nothing: the library's records are still formatted at WARNING and above
    # (repid formats its templates in a LoggerAdapter before any handler sees them); every second case runs at DEBUG, as a
    # user who switched debug logging on would. Output itself is discarded.
    logging.lastResort = logging.NullHandler()
    for noisy in ("asyncio", "aiormq", "pamqp", "redis"):
        logging.getLogger(noisy).addHandler(logging.NullHandler())
    warnings.simplefilter("ignore", DeprecationWarning)
    cov = None
    import os

    if os.environ.get("RV_COVERAGE_DIR"):
        # optional reach report (tools/reach.sh): which lines of the library the workloads of a check execute
        import coverage

        cov = coverage.Coverage(data_file=os.path.join(os.environ["RV_COVERAGE_DIR"], f".coverage.{prop}"), data_suffix=True,
                                source=[os.path.join(os.environ.get("REPID_SRC", "/repo"), "repid")], branch=True)
        cov.start()
    mod = importlib.import_module(f"rv.checks.{prop}")
    with open(inp) as f:
        cases = json.load(f)
    signal.signal(signal.SIGALRM, _alarm)
    with open(out, "w") as fo:
        for case in cases:
            logging.getLogger("repid").setLevel(logging.DEBUG if case.get("cid", 0) % 2 else logging.NOTSET)
            t0 = time.perf_counter()
            caught = []

            def showwarning(message, category, filename, lineno, file=None, line=None, _c=caught):
                if issubclass(category, RuntimeWarning):
                    _c.append(f"{category.__name__}: {message}")

            warnings.showwarning = showwarning
            signal.setitimer(signal.ITIMER_REAL, case_timeout)
            try:
                r = mod.run_case(case)
            except CaseTimeout:
                r = {"fp": None, "viol": [], "stats": {}, "inconclusive": f"case watchdog {case_timeout}s"}
            except BaseException as exc:  # noqa: BLE001
                if isinstance(exc, (KeyboardInterrupt, SystemExit)):
                    raise
                r = {"fp": None, "viol": [], "stats": {}, "inconclusive": "harness error: " + "".join(traceback.format_exception(exc))[-1200:]}
            finally:
                signal.setitimer(signal.ITIMER_REAL, 0)
            r["cid"] = case["cid"]
            r["real_s"] = round(time.perf_counter() - t0, 3)
            if caught:
                r.setdefault("stats", {})["runtime_warnings"] = len(caught)
                r["runtime_warnings"] = caught[:3]
            fo.write(json.dumps(r, default=str) + "\n")
            fo.flush()
    if cov is not None:
        cov.stop()
        cov.save()


if __name__ == "__main__":
    main()

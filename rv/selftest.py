"""Kernel self-test (run under LD_PRELOAD by `./check selftest`)."""
import asyncio
import sys
import time
from datetime import datetime


def main():
    from rv.sim import clock, loop as vl
    assert clock.self_check(), "pinned clock not visible through datetime.now()"
    seen = {}

    async def main_(loop):
        t0 = loop.time()
        await asyncio.sleep(3600)
        seen["slept"] = loop.time() - t0

        def cb():
            seen["wall_in_timer"] = time.time() - vl.EPOCH_S
            seen["loop_in_timer"] = loop.time()
        loop.call_at(loop.time() + 30.000001, cb)
        await asyncio.sleep(31)
        seen["dt"] = datetime.now()

    r0 = time.perf_counter()
    res = vl.run(main_)
    assert res.exc is None, res.exc
    assert abs(seen["slept"] - 3600) < 1e-9
    assert abs(seen["wall_in_timer"] - seen["loop_in_timer"]) < 1e-6, seen
    assert seen["dt"].year == 2040
    assert time.perf_counter() - r0 < 5
    # FIFO wire
    from rv.sim.memnet import Net
    got = []

    async def net_(loop):
        net = Net()

        async def srv(r, w, label):
            while True:
                d = await r.read(100)
                if not d:
                    break
                got.append(d)
        net.register("h", srv, latency=lambda: 0.01)
        r, w = await net.open_connection("h", 1)
        for i in range(50):
            w.write(b"%03d" % i)
        await asyncio.sleep(1)
    res = vl.run(net_)
    assert res.exc is None, res.exc
    data = b"".join(got)
    assert data == b"".join(b"%03d" % i for i in range(50)), data
    print("selftest ok")


if __name__ == "__main__":
    main()
    sys.exit(0)

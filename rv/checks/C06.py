"""C06 - recurring jobs: exactly one successor per run, on a steady cadence.

Recurring jobs (deferred_by) run for many iterations through a real Worker with varying actor durations (so the
lateness of the reschedule varies from run to run) and outcomes (success, retry chain, retries exhausted). The monitor
reads every reschedule (requeue with counter 0) from the recorded broker calls: one per completed iteration, counter
reset, ttl clock restarted, scheduled time strictly ahead, at most one period ahead, at least one period after the
scheduled time of the iteration that just ran; the first run honours deferred_until.
"""
from __future__ import annotations

import asyncio
import collections
import random
from datetime import datetime, timedelta

LEVEL = "exploration"
RULE = ("period {1,2.5,10,3600(jump)} x duration profile {constant, growing, shrinking, saw-tooth, longer than the period} x outcome "
        "chain {ok, fail->retry->ok, exhausted, mixed} x deferred_until {none, ahead, past} x broker; evaluation = one completed "
        "iteration judged; fingerprint = (broker, period, profile, outcomes, deferred_until); trivial = chains with < 3 iterations")
ASSUMPTIONS = ["Redis and RabbitMQ are wire-level fakes", "virtual time", "cron schedules not reachable (croniter absent)",
               "scheduled time of an iteration = the next_execution_time its message carried (for the first: deferred_until or timestamp+period)"]
EVAL_COUNTER = "iterations_judged"
REQUIRED = ["iterations_judged", "profile_shrinking", "profile_longer", "outcome_retry", "outcome_exhausted", "outcome_eager_exhausted", "outcome_store_fault", "first_run_deferred_until", "twin_chains_judged", "timezone_offset_runs", "zero_backoff_runs", "re_enqueued_while_an_iteration_runs"]
CASE_TIMEOUT = 150

PROFILES = ["constant", "growing", "shrinking", "sawtooth", "longer"]
OUTCOMES = ["ok", "retry", "exhausted", "mixed", "eager_exhausted", "store_fault"]


def gen_cases(tier, seed):
    rnd = random.Random(seed)
    cases = []
    for kind in ("mem", "redis", "rabbit"):
        periods = [1.0, 2.5, 10.0] if kind == "mem" else [2.5, 10.0]
        for p in periods:
            for prof in PROFILES:
                for oc in OUTCOMES:
                    if tier == "quick" and kind != "mem" and (oc in ("mixed",) or prof in ("constant", "sawtooth")):
                        continue
                    for du in (["none", "ahead", "far", "past"] if (tier == "thorough" or (prof == "constant" and oc == "ok")) else ["none"]):
                        cases.append({"kind": kind, "p": p, "profile": prof, "outcomes": oc, "du": du, "iters": rnd.choice([8, 12]) if p >= 10 else rnd.choice([10, 16, 25]),
                                      "seed": rnd.randrange(10**6), "latency": None if kind == "mem" else 0.002})
        cases.append({"kind": kind, "p": 3600.0, "profile": "constant", "outcomes": "ok", "du": "none", "iters": 6, "seed": rnd.randrange(10**6), "latency": None, "jump": True})
    # retries without any back-off inside the chains
    for kind in ("mem", "redis", "rabbit"):
        for oc in (("retry", "mixed", "exhausted") if tier == "quick" else ("retry", "mixed", "exhausted", "eager_exhausted")):
            for prof in (("constant",) if tier == "quick" else ("constant", "longer")):
                cases.append({"kind": kind, "p": 2.5, "profile": prof, "outcomes": oc, "du": "none", "iters": 10, "seed": rnd.randrange(10**6), "latency": None if kind == "mem" else 0.002, "zero_backoff": True})
    # Redis: the producer enqueues the recurring job again, under its fixed id, while an iteration is being executed (one
    # message per id there): the successor written at the end of that iteration is the one that counts
    # (scores are whole seconds there: several distances, so that some land in another second than the successor's time)
    for ahead in ((0.3, 0.5) if tier == "quick" else (0.3, 0.4, 0.5, 0.7, 1.0)):
        for when in (1, 2, 3):
            cases.append({"reenqueue": True, "kind": "redis", "p": 2.5, "ahead": ahead, "when": when, "iters": 7, "seed": rnd.randrange(10**6), "latency": 0.002})
    # the same cadence rules on machines whose local time is not UTC (schedules are naive local datetimes)
    for i, tz in enumerate(("JST-9", "CET-1", "EST5", "IST-5:30")):
        for kind in ("mem", "redis", "rabbit"):
            cases.append({"kind": kind, "p": 2.5, "profile": PROFILES[i % len(PROFILES)], "outcomes": ["ok", "retry", "exhausted", "ok"][i], "du": ["none", "ahead", "past", "far"][i], "iters": 8,
                          "seed": rnd.randrange(10**6), "latency": None if kind == "mem" else 0.002, "tz": tz})
    # twins: two recurring jobs with the same actor name and the same id that differ only in queue (two workers) or only
    # in priority (one worker); their executions overlap in every iteration, each chain keeps its own successor
    for kind in ("mem", "redis", "rabbit"):
        for variant in ("queues", "priorities"):
            for dA, dB in ([(0.2, 0.6), (0.6, 0.2)] if tier == "quick" else [(0.2, 0.6), (0.6, 0.2), (0.05, 0.9), (0.4, 0.45), (0.3, 1.3)]):
                cases.append({"twins": variant, "kind": kind, "p": 2.5, "dA": dA, "dB": dB, "iters": 6 if tier == "quick" else 10,
                              "seed": rnd.randrange(10**6), "latency": None if kind == "mem" else 0.002})
    if tier == "thorough":
        cases += [dict(c, seed=c["seed"] + 1, iters=25 if c["p"] < 10 else 12) for c in cases if c["kind"] == "mem" and not c.get("twins")]
    return cases


def V(rule, kind, ctx, detail):
    return {"rule": rule, "broker": kind, "context": ctx, "detail": detail}


EPOCH = datetime(2040, 1, 1)


def durations(profile, p, n, rnd):
    out = []
    for i in range(n):
        if profile == "constant":
            d = 0.1
        elif profile == "growing":
            d = min(0.05 + 0.07 * p * i / 2, 0.9 * p)
        elif profile == "shrinking":
            d = max(0.3 * p - 0.04 * p * i, 0.0)
        elif profile == "sawtooth":
            d = [0.05, 0.35 * p, 0.1, 0.6 * p][i % 4]
        else:
            d = [1.4 * p, 0.1, 2.3 * p, 0.2][i % 4]
        out.append(round(d, 6))
    return out


async def scenario(loop, case, out, stats, fps, samples):
    from rv.wl import World, run_worker

    kind, p, prof, oc = case["kind"], case["p"], case["profile"], case["outcomes"]
    from rv.sim.loop import EPOCH_S

    EPOCH = datetime.fromtimestamp(EPOCH_S)  # naive local time of virtual instant 0 (the module constant on a UTC machine)
    rnd = random.Random(case["seed"])
    w = World(loop, kind, converter="basic", seed=case["seed"], latency=case["latency"])
    try:
        await w.open()
        # (zero_backoff: a policy of no delay - the retry goes straight back to the queue and may be handed out again at once)
        backoff = 0.0 if case.get("zero_backoff") else 0.05 * p
        stats["zero_backoff_runs" if case.get("zero_backoff") else "delayed_backoff_runs"] += 1
        r = w.router(retry_policy=lambda retry_number=1: timedelta(seconds=backoff))
        w.scripted_actor(r, "act")
        await w.conn.message_broker.queue_declare("default")
        loop.jump(1.0 + rnd.choice([0.0, 0.3, 0.77]))
        n = case["iters"]
        ds = durations(prof, p, n + 3, rnd)
        by_iter = []
        kinds_seen = set()
        for i in range(n + 3):
            o = oc if oc != "mixed" else rnd.choice(["ok", "retry", "exhausted", "eager_exhausted"])
            kinds_seen.add(o)
            if o in ("ok", "store_fault"):
                steps = [{"do": "ok", "d": ds[i], "ret": {"it": i}}]
            elif o == "retry":
                steps = [{"do": "raise", "d": ds[i]}, {"do": "ok", "d": 0.01}]
            elif o == "eager_exhausted":
                # the actor asks for retries itself until none is left (the last request is refused: an ordinary failure)
                er = {"do": "eager", "action": "retry", "pre": [], "next": backoff}
                steps = [dict(er, d=ds[i]), dict(er, d=0.01), dict(er, d=0.01)]
            else:
                steps = [{"do": "raise", "d": ds[i]}, {"do": "raise", "d": 0.01}, {"do": "raise", "d": 0.01}]
            by_iter.append({"by_attempt": steps})
        timeout = timedelta(seconds=max(1.0, 3 * p))
        kw = dict(deferred_by=timedelta(seconds=p), retries=2, timeout=timeout, store_result=(oc == "store_fault"))
        if oc == "store_fault":
            # the result store is down for every second iteration: the schedule must not care
            mw = w.conn.results_bucket_broker.store_bucket
            orig_fn = mw.fn
            calls = {"n": 0}

            async def flaky(*a, **k):
                calls["n"] += 1
                if calls["n"] % 2 == 1:
                    stats["result_store_faults"] += 1
                    raise ConnectionError("result store is down (injected)")
                return await orig_fn(*a, **k)

            mw.fn = flaky
        now0 = datetime.now()
        if case["du"] == "ahead":
            kw["deferred_until"] = now0 + timedelta(seconds=0.4 * p + 0.123)
        elif case["du"] == "far":
            kw["deferred_until"] = now0 + timedelta(seconds=2.5 * p + 0.123)  # several periods ahead: no run before it
        elif case["du"] == "past":
            kw["deferred_until"] = now0 - timedelta(seconds=5)
        job = w.job("act", "r1", {"by_iter": by_iter}, **kw)
        _key, _args, params0 = await job.enqueue()
        ts0 = job.timestamp
        # scheduled time of the first run: what the real function gives at the instant of the enqueue; it must be
        # deferred_until when that is ahead, else strictly ahead of now and at most one period ahead
        first_sched = params0.compute_next_execution_time
        if case["du"] in ("ahead", "far") and first_sched != kw["deferred_until"]:
            out.append(V("first_run", kind, "deferred_until", f"deferred_until {kw['deferred_until']} is ahead but the first run is scheduled for {first_sched}"))
        if case["du"] not in ("ahead", "far") and not (now0 < first_sched <= datetime.now() + timedelta(seconds=p)):
            out.append(V("first_run", kind, "window", f"first run scheduled for {first_sched}; now {now0}, period {p}s"))
        worker = w.worker([r], tasks_limit=10, graceful_shutdown_time=max(5.0, 3 * p), handle_signals=[__import__("signal").SIGUSR1])

        def resched_events():
            return [e for e in w.log.events if e.get("k") == "call" and e.get("op") == "requeue" and e.get("depth") == 0 and e.get("id") == "r1" and (e.get("params") or {}).get("tried") == 0]

        horizon = (n + 2 + (3 if case["du"] == "far" else 0)) * p + sum(ds[:n]) + 10
        if case.get("jump"):
            # an hour-long period: suspend the process between runs instead of idling through 3.6M polling iterations
            task = loop.create_task(run_worker(w, worker, until=lambda: len(resched_events()) >= n, horizon=n * p + 100, poll=0.5))
            seen = 0
            while not task.done():
                await asyncio.sleep(1.0)
                rs = resched_events()
                if len(rs) > seen:
                    seen = len(rs)
                    nxt = datetime.fromisoformat(rs[-1]["params"]["next"])
                    await asyncio.sleep(0.5)
                    await w.rig.quiesce_wire()
                    loop.jump_to((nxt - EPOCH).total_seconds() - 2.0)
                elif seen == 0 and loop.time() < (first_sched - EPOCH).total_seconds() - 5:
                    await w.rig.quiesce_wire()
                    loop.jump_to((first_sched - EPOCH).total_seconds() - 2.0)
            info = await task
        else:
            info = await run_worker(w, worker, until=lambda: len(resched_events()) >= n, horizon=horizon, poll=0.25)
        if info["exc"] is not None or not info["returned"]:
            out.append(V("worker_died", kind, "run", f"{info}"))
        await asyncio.sleep(0.3)
        # ---- monitor
        ev = [e for e in w.log.events if e.get("id") == "r1"]
        rs = resched_events()
        starts0 = [e for e in ev if e["k"] == "actor_start" and e["attempt"] == 0]
        ctx = f"{prof}/{oc}"
        fps_key = f"{kind}/{p}/{prof}/{oc}/{case['du']}"
        if len(rs) >= 3:
            fps.add(fps_key)
        stats["profile_" + prof] += 1
        for o in kinds_seen:
            stats["outcome_" + o] += 1
        pd = timedelta(seconds=p)
        us = timedelta(microseconds=2)
        # first run honours deferred_until / the first grid slot
        if starts0:
            t_first = EPOCH + timedelta(seconds=starts0[0]["t"])
            if case["du"] in ("ahead", "far"):
                stats["first_run_deferred_until"] += 1
                if t_first < first_sched - timedelta(milliseconds=1):
                    out.append(V("first_run", kind, "deferred_until", f"first run at {t_first}, before deferred_until {first_sched}"))
            if t_first < first_sched - timedelta(milliseconds=1):
                out.append(V("first_run", kind, "early", f"first run at {t_first}, scheduled {first_sched}"))
        else:
            out.append(V("no_successor", kind, "never-ran", f"recurring job never ran within {horizon}s"))
        # every completed iteration has exactly one reschedule
        finals_per_iter = collections.Counter()
        cur_iter = 0
        for e in ev:
            if e["k"] == "actor_start" and e["attempt"] == 0:
                cur_iter = e["iteration"]
            elif e["k"] == "call" and e.get("depth") == 0 and e.get("op") == "requeue" and (e.get("params") or {}).get("tried") == 0:
                finals_per_iter[cur_iter] += 1
            elif e["k"] == "call" and e.get("depth") == 0 and e.get("op") in ("ack", "nack"):
                out.append(V("no_successor", kind, ctx, f"iteration {cur_iter} ended with {e['op']} instead of a reschedule"))
        lost = [e for e in ev if e["k"] == "actor_start" and e.get("retries_max") not in (None, 2)]
        if lost:
            out.append(V("no_successor", kind, "retry-budget-lost", f"the job was enqueued with retries=2; iteration {lost[0].get('iteration')} (attempt {lost[0]['attempt']}) carries a budget of {lost[0]['retries_max']}"))
        for it, cnt in finals_per_iter.items():
            if cnt > 1:
                out.append(V("two_successors", kind, ctx, f"iteration {it}: {cnt} reschedules"))
        sched = first_sched
        prev_now = None
        for i, e in enumerate(rs):
            stats["iterations_judged"] += 1
            prm = e["params"]
            now_i = EPOCH + timedelta(seconds=e["t"])
            nxt = datetime.fromisoformat(prm["next"]) if prm.get("next") else None
            ts = datetime.fromisoformat(prm["ts"])
            if prm["tried"] != 0:
                out.append(V("counter_not_reset", kind, ctx, f"iteration {i + 1}: successor carries already_tried={prm['tried']}"))
            if abs((ts - now_i).total_seconds()) > 1e-4:
                out.append(V("clock_not_restarted", kind, ctx, f"iteration {i + 1}: successor timestamp {ts}, rescheduled at {now_i}"))
            if nxt is None:
                out.append(V("not_future", kind, ctx, f"iteration {i + 1}: successor has no scheduled time"))
                continue
            if not (nxt > now_i - us):
                out.append(V("not_future", kind, ctx, f"iteration {i + 1}: successor scheduled {nxt} <= now {now_i}"))
            elif nxt <= now_i + us and nxt >= now_i - us and False:
                pass
            if nxt > now_i + pd + us:
                out.append(V("beyond_one_period", kind, ctx, f"iteration {i + 1}: successor scheduled {nxt}, more than one period ({p}s) after now {now_i}"))
            if nxt < sched + pd - us:
                out.append(V("cadence_short", kind, ctx, f"iteration {i + 1} was scheduled for {sched.time()} and rescheduled at {now_i.time()}: successor scheduled {nxt.time()}, only {(nxt - sched).total_seconds():.3f}s after its predecessor's slot (period {p}s)"))
            sched = nxt
        # successor exists exactly once at the end
        place = w.rig.snapshot().get("r1", [])
        if rs and place not in (["delayed"], ["held"], ["waiting"]):
            out.append(V("no_successor" if not place else "two_successors", kind, "final-state", f"after {len(rs)} iterations the job is at {place}"))
        if len(rs) < max(2, n // 3) and not out:
            out.append(V("no_successor", kind, "too-few", f"only {len(rs)} iterations completed in {horizon:.0f}s (period {p}s, expected about {n})"))
        if len(samples) < 1 and rs:
            samples.append({"broker": kind, "period_s": p, "profile": prof, "outcomes": oc,
                            "rescheduled_at_s": [round(e["t"], 3) for e in rs[:8]],
                            "successor_scheduled_s": [round((datetime.fromisoformat(e["params"]["next"]) - EPOCH).total_seconds(), 3) for e in rs[:8]]})
        stats["unknown_server_commands"] += w.rig.unknown_commands()
    finally:
        await w.close()


async def reenqueue_scenario(loop, case, out, stats, fps, samples):
    from rv.sim.loop import EPOCH_S
    from rv.wl import World, run_worker

    kind, p, n = case["kind"], case["p"], case["iters"]
    EPOCH = datetime.fromtimestamp(EPOCH_S)
    w = World(loop, kind, converter="basic", seed=case["seed"], latency=case["latency"])
    try:
        await w.open()
        r = w.router()
        w.scripted_actor(r, "act")
        await w.conn.message_broker.queue_declare("default")
        loop.jump(1.37)
        kw = dict(deferred_by=timedelta(seconds=p), retries=0, timeout=timedelta(seconds=5), store_result=False)
        await w.job("act", "tick", {"do": "ok", "d": 0.2}, **kw).enqueue()

        def starts():
            return [e for e in w.log.events if e.get("id") == "tick" and e["k"] == "actor_start"]

        async def producer():
            while len(starts()) < case["when"] + 1:
                await asyncio.sleep(0.01)
            await asyncio.sleep(0.08)  # the iteration is being executed (0.2 s)
            stats["re_enqueued_while_an_iteration_runs"] += 1
            await w.job("act", "tick", {"do": "ok", "d": 0.2}, deferred_until=datetime.now() + timedelta(seconds=case["ahead"]), **kw).enqueue()
            return loop.time()

        prod = loop.create_task(producer())
        info = await run_worker(w, w.worker([r], tasks_limit=3, graceful_shutdown_time=3.0, handle_signals=[__import__("signal").SIGUSR1]), until=lambda: len(starts()) >= n, horizon=(n + 3) * p, poll=0.1)
        if info["exc"] is not None or not info["returned"]:
            out.append(V("worker_died", kind, "reenqueue", f"{info}"))
        if not prod.done():
            prod.cancel()
            out.append(V("harness_or_api_error", kind, "reenqueue", "the producer never saw the iteration it waited for"))
            return
        ev = [e for e in w.log.events if e.get("id") == "tick"]
        ctx = "reenqueue-while-running"
        fps.add(f"{kind}/reenqueue/{case['ahead']}/{case['when']}")
        rq = [e for e in ev if e["k"] == "call" and e.get("op") == "requeue" and e.get("depth") == 0]
        for q_ in rq:
            stats["iterations_judged"] += 1
            nxt = (q_.get("params") or {}).get("next")
            if not nxt:
                continue
            due = (datetime.fromisoformat(nxt) - EPOCH).total_seconds()
            after = [e for e in ev if e["k"] == "actor_start" and e["n"] > q_["n"]]
            if after and after[0]["t"] < due - 0.001:
                out.append(V("early_successor", kind, ctx, f"the iteration that ended at +{q_['t']:.3f}s scheduled its successor for +{due:.3f}s; the next execution started at +{after[0]['t']:.3f}s, {due - after[0]['t']:.3f}s early "
                                                           f"(the job had been enqueued again under the same id, {case['ahead']}s ahead, while iteration {case['when'] + 1} was running)"))
                break
        ts = [e["t"] for e in starts()]
        close = [(a, b) for a, b in zip(ts, ts[1:]) if b - a < p / 2]
        if close and not any(v["rule"] == "early_successor" for v in out):
            out.append(V("two_successors", kind, ctx, f"executions {close[0][0]:.3f}s and {close[0][1]:.3f}s are less than half a period apart (period {p}s): {[round(t, 3) for t in ts]}"))
        if len(ts) < n:
            out.append(V("no_successor", kind, ctx, f"only {len(ts)} executions in {(n + 3) * p:.0f}s: {[round(t, 3) for t in ts]}; state {w.rig.snapshot().get('tick')}"))
        stats["unknown_server_commands"] += w.rig.unknown_commands()
    finally:
        await w.close()


async def twins_scenario(loop, case, out, stats, fps, samples):
    from repid import PrioritiesT

    from rv.wl import World

    kind, p, variant, n = case["kind"], case["p"], case["twins"], case["iters"]
    w = World(loop, kind, converter="basic", seed=case["seed"], latency=case["latency"])
    try:
        await w.open()
        loop.jump(1.37)
        if variant == "queues":
            chains = {"A": ("qa", PrioritiesT.MEDIUM), "B": ("qb", PrioritiesT.MEDIUM)}
        else:
            chains = {"A": ("qa", PrioritiesT.HIGH), "B": ("qa", PrioritiesT.LOW)}
        routers = {}
        for qn in sorted({q for q, _ in chains.values()}):
            routers[qn] = w.router(retry_policy=lambda retry_number=1: timedelta(seconds=0.1))
            w.scripted_actor(routers[qn], "act", queue=qn)
            await w.conn.message_broker.queue_declare(qn)
        for c, (qn, prio) in chains.items():
            d = case["d" + c] * p
            await w.job("act", "r1", {"do": "ok", "d": d, "ret": {"chain": c}, "label": c}, queue=qn, priority=prio, deferred_by=timedelta(seconds=p), retries=1,
                        timeout=timedelta(seconds=3 * p), store_result=False, args_id=f"args-{c}", result_id=f"res-{c}").enqueue()
        workers = [w.worker([r], tasks_limit=10, graceful_shutdown_time=3 * p, handle_signals=[], messages_limit=n if variant == "queues" else 2 * n) for r in routers.values()]
        tasks = [loop.create_task(wk.run()) for wk in workers]
        horizon = (n + 4) * max(p, case["dA"] * p, case["dB"] * p) + 10
        done, pending = await asyncio.wait(tasks, timeout=horizon)
        for t in pending:
            out.append(V("worker_died", kind, "twins/no-return", f"a worker limited to {n} executions of a job recurring every {p}s had not returned after {horizon:.0f}s"))
            t.cancel()
        for t in done:
            if t.exception() is not None:
                out.append(V("worker_died", kind, "twins/run", f"Worker.run raised {t.exception()!r}"))
        await asyncio.sleep(0.3)
        ev = w.log.events
        ctx = f"twins/{variant}"
        places = w.rig.snapshot(detail=True).get("r1", [])
        held = [(pl, qn) for pl, qn, _ in places if pl == "held"]
        total = 0
        for c, (qn, prio) in chains.items():
            mine = lambda e: e.get("id") == "r1" and e.get("queue") == qn and e.get("prio") == prio.value  # noqa: E731
            runs = [e for e in ev if e.get("k") == "actor_start" and e.get("label") == c]
            calls = [e for e in ev if e.get("k") == "call" and e.get("depth") == 0 and e.get("op") in ("ack", "nack", "reject", "requeue") and mine(e)]
            rs = [e for e in calls if e["op"] == "requeue" and (e.get("params") or {}).get("tried") == 0]
            stats["iterations_judged"] += len(rs)
            stats["twin_iterations"] += len(rs)
            total += len(runs)
            if len(rs) != len(runs):
                out.append(V("two_successors" if len(rs) > len(runs) else "no_successor", kind, ctx, f"chain {c} ({qn}, priority {prio.value}): {len(runs)} runs, {len(rs)} reschedules"))
            want = n if variant == "queues" else n - 2
            if len(runs) < want:
                out.append(V("no_successor", kind, ctx, f"chain {c} ({qn}, priority {prio.value}) of two recurring jobs sharing actor name and id ran {len(runs)} time(s) in {horizon:.0f}s while "
                                                         f"its twin kept running: after its iteration {len(runs)} no successor was ever delivered (expected {want}+ runs)"))
            live = [pl for pl, q_, pr_ in places if pl in ("delayed", "waiting") and q_ == qn and pr_ == prio.value]
            if len(live) != 1:
                last = calls[-1]["op"] if calls else None
                # what the worker did last with the chain's message tells the mechanisms apart: a successor written by
                # requeue that is nowhere, or a taken successor handed back (limit reached / consumer finished) that is nowhere
                mech = {"requeue": "successor-never-stored", "reject": "handed-back-successor-gone"}.get(last, f"after-{last}")
                if last == "requeue" and kind == "redis":
                    # ... or a successor that WAS stored and then taken by the worker's prefetching consumer, whose finish()
                    # stopped the fetch between the take and the hand-over (the server's command log tells)
                    qd, qn_ = f"q:{qn}:{prio.value}:d".encode(), f"q:{qn}:{prio.value}:n".encode()
                    stored = taken = None
                    for i_, entry in enumerate(w.rig.server.log):
                        if entry[1] != "EXEC":
                            continue
                        for cmd in entry[2]:
                            if cmd[0] in (b"ZADD", b"LPUSH", b"RPUSH") and cmd[1] in (qd, qn_):
                                stored, taken = i_, None
                            elif cmd[0] in (b"ZREM", b"LREM") and cmd[1] in (qd, qn_):
                                taken = i_
                    if stored is not None and taken is not None:
                        mech = "taken-successor-abandoned-mid-fetch"
                out.append(V("no_successor" if not live else "two_successors", kind, f"twins/final-state/{mech}",
                             f"chain {c} ({qn}, priority {prio.value}): after both chains ran {len(runs)} times its successor is at {live or 'no queue'} (all places of id r1: {places}); last broker call for it: {last}"))
        if variant == "priorities" and total != 2 * n:
            out.append(V("no_successor" if total < 2 * n else "two_successors", kind, ctx, f"{total} executions instead of {2 * n}"))
        if held:
            out.append(V("two_successors", kind, "twins/final-state/old-iterations-still-unsettled", f"both workers have returned, yet {len(held)} deliveries of earlier iterations are still unsettled at the broker ({held[:3]}...): "
                                                                                                     f"they come back once the connection closes, next to the successors already scheduled"))
        fps.add(f"{kind}/twins/{variant}/{case['dA']}/{case['dB']}")
        stats["twin_chains_judged"] += 2
        stats["unknown_server_commands"] += w.rig.unknown_commands()
    finally:
        await w.close()


def run_case(case):
    from rv.sim import loop as vl

    stats = collections.Counter()
    out, fps, samples = [], set(), []
    sc = twins_scenario if case.get("twins") else reenqueue_scenario if case.get("reenqueue") else scenario
    import os
    import time as _time

    old_tz = os.environ.get("TZ")
    if case.get("tz"):
        os.environ["TZ"] = case["tz"]
        _time.tzset()
        stats["timezone_offset_runs"] += 1
    try:
        res = vl.run(lambda loop: sc(loop, case, out, stats, fps, samples), max_steps=8_000_000, seed=case["seed"])
    finally:
        if case.get("tz"):
            if old_tz is None:
                os.environ.pop("TZ", None)
            else:
                os.environ["TZ"] = old_tz
            _time.tzset()
    if res.exc is not None:
        if isinstance(res.exc, vl.StepLimit):
            return {"fp": None, "viol": [], "stats": dict(stats), "inconclusive": str(res.exc)}
        out.append(V("harness_or_api_error", case["kind"], "scenario", f"{type(res.exc).__name__}: {res.exc}"))
    if stats.get("unknown_server_commands"):
        return {"fp": None, "viol": [], "stats": dict(stats), "inconclusive": "fake server saw unknown commands"}
    # one violation per rule is enough per case
    seen, vv = set(), []
    for v in out:
        if (v["rule"], v["context"]) not in seen:
            seen.add((v["rule"], v["context"]))
            vv.append(v)
    r = {"fp": None, "fps": sorted(fps), "viol": vv[:6], "stats": dict(stats)}
    if samples and case["cid"] % 5 == 0:
        r["sample"] = samples[0]
    return r

"""C18 - dependencies resolve to exactly what their providers return.

Random acyclic dependency graphs (sync/async providers, shared sub-dependencies, the message dependency as a leaf,
providers with plain defaulted parameters) are declared on generated actors; providers return tokens that encode their
own resolved inputs, a reference evaluator computes the expected token tree, and the actor records what it was called
with. Overrides, failing providers and unsupported declarations are part of the workload.
"""
from __future__ import annotations

import asyncio
import collections
import inspect
import random
from datetime import timedelta

LEVEL = "exploration"
RULE = ("random DAGs (<= 7 providers, depth <= 4, fan-out <= 3, shared sub-dependencies, sync/async mix, MessageDependency leaves) x "
        "override sequences (incl. overrides that change the sub-dependency set) x failing providers x payload parameters (positional-only, "
        "positional-or-keyword, keyword-only, defaults) x both converters; evaluation = one actor invocation (or one declaration) judged; "
        "fingerprint = canonical DAG + overrides + failure + converter; trivial = graphs without any edge")
ASSUMPTIONS = ["in-memory broker; virtual time; sync providers run through an inline executor (the asyncify wrapper is kept)"]
EVAL_COUNTER = "invocations_judged"
REQUIRED = ["invocations_judged", "process_pool_provider_runs", "providers_with_defaulted_dependencies", "graphs_with_shared_subdeps", "overrides_applied", "provider_failures", "declaration_rejections", "msg_leaves", "concurrent_twins", "fresh_executions", "same_function_depends_runs", "shadowing_payload_jobs", "exception_valued_providers", "providers_returning_an_awaitable_value"]
CASE_TIMEOUT = 120


def gen_cases(tier, seed):
    rnd = random.Random(seed)
    n = {"quick": 64, "thorough": 800}[tier]
    cases = [{"type": "graphs", "seed": rnd.randrange(10**6), "conv": rnd.choice(["basic", "pydantic"]), "n": 6} for _ in range(n)]
    cases.append({"type": "declarations", "seed": 0})
    for i, conv in enumerate(["basic", "pydantic"]):
        cases.append({"type": "shadow", "seed": rnd.randrange(10**6), "conv": conv})
    for i in range({"quick": 6, "thorough": 36}[tier]):
        cases.append({"type": "twice", "seed": rnd.randrange(10**6), "conv": ["basic", "pydantic"][i % 2], "async": i % 3 == 0, "which": i % 3, "nested": i % 2 == 1})
    for i in range({"quick": 8, "thorough": 48}[tier]):
        cases.append({"type": "fresh", "seed": rnd.randrange(10**6), "keep": i % 2 == 0, "via_retry": (i // 2) % 2 == 0, "fails": 1 + i % 3, "recurring": i % 4 == 3})
    # real processes, real time: a provider declared with run_in_process=True, then overridden by an ordinary closure
    cases.append({"type": "inproc", "seed": 1})
    cases.append({"type": "awaitable", "seed": 1})
    return cases


def V(rule, ctx, detail):
    return {"rule": rule, "broker": "-", "context": ctx, "detail": detail}


def gen_graph(rnd):
    k = rnd.randint(1, 7)
    nodes = []
    for i in range(k):
        cands = list(range(i))
        rnd.shuffle(cands)
        subs = sorted(cands[: rnd.choice([0, 0, 1, 1, 2, 3])]) if cands else []
        nodes.append({"name": f"d{i}", "subs": subs, "async": rnd.random() < 0.5, "msg": rnd.random() < 0.25, "plain": rnd.choice([None, None, 7]),
                      "dep_defaults": rnd.random() < 0.3})
    return nodes


def awaitable_case(case, out, stats, fps):
    """Stock event loop (sync providers really run in the thread pool): a provider's return value that happens to be awaitable
    is still just the value."""
    from repid import Connection, Job, Router, Worker
    from repid.connections import InMemoryMessageBroker
    from repid.converter import BasicConverter, DefaultConverter
    from repid.router import RouterDefaults
    from rv.actors import LazyHandle, register_awaitable_value_actors
    from rv.sim.loop import wall_passthrough

    wall_passthrough()
    for conv in (BasicConverter, DefaultConverter):
        received, made = {}, {}

        async def main():
            conn = Connection(InMemoryMessageBroker())
            await conn.connect()
            r = Router(defaults=RouterDefaults(converter=conv))
            names = register_awaitable_value_actors(r, received, made)
            await conn.message_broker.queue_declare("default")
            for n_ in names:
                await Job(n_, id_=n_, store_result=False, _connection=conn).enqueue()
            await asyncio.wait_for(Worker(routers=[r], messages_limit=len(names), tasks_limit=1, handle_signals=[], _connection=conn).run(), 60)
            await conn.disconnect()

        asyncio.run(main())
        stats["invocations_judged"] += 3
        stats["providers_returning_an_awaitable_value"] += 3
        fps.add(f"awaitable/{conv.__name__}")
        ctx = f"awaitable-value/{conv.__name__}"
        for which, want in (("direct", made.get("direct")), ("override", made.get("override"))):
            got = received.get(which, "<actor never ran>")
            if got is not want or not isinstance(got, LazyHandle) or got.awaited:
                out.append(V("value_mismatch", ctx, f"{which}: a synchronous provider returned a LazyHandle (an awaitable object); the actor received {got!r}"
                                                    f"{' - the handle was awaited ' + str(want.awaited) + ' time(s) on the way' if isinstance(want, LazyHandle) and want.awaited else ''}"))
        got = received.get("nested", "<actor never ran>")
        child = made.get("child")
        if not (isinstance(got, tuple) and len(got) == 2 and got[0] == "parent" and got[1] is child and made.get("parent_saw") is child and not child.awaited):
            out.append(V("value_mismatch", ctx, f"nested: the parent provider's sub-dependency returned a LazyHandle; the parent saw {made.get('parent_saw')!r}, the actor received {got!r}"))


def inproc_case(case, out, stats, fps):
    """Stock event loop, real ProcessPoolExecutor: the declared provider runs in another process; an override given as a
    closure (what tests and the documentation's example do) replaces it from then on and its value reaches the actor."""
    import os

    from repid import Connection, Job, Router, Worker
    from repid.connections import InMemoryMessageBroker
    from repid.converter import BasicConverter
    from repid.router import RouterDefaults
    from rv.actors import register_inproc_actor
    from rv.sim.loop import wall_passthrough

    wall_passthrough()
    received = []

    async def main():
        conn = Connection(InMemoryMessageBroker())
        await conn.connect()
        r = Router(defaults=RouterDefaults(converter=BasicConverter))
        dep = register_inproc_actor(r, "heavy", received)
        await conn.message_broker.queue_declare("default")
        await Job("heavy", id_="h1", args={"tag": "declared"}, store_result=False, _connection=conn).enqueue()
        await asyncio.wait_for(Worker(routers=[r], messages_limit=1, handle_signals=[], _connection=conn).run(), 60)
        secret = {"n": 0}

        def replacement():
            secret["n"] += 1  # state of THIS process: a closure cannot travel to another one
            return ("overridden", secret["n"])

        dep.override(replacement)
        for i in (1, 2):
            await Job("heavy", id_=f"o{i}", args={"tag": f"override{i}"}, store_result=False, _connection=conn).enqueue()
        await asyncio.wait_for(Worker(routers=[r], messages_limit=2, tasks_limit=1, handle_signals=[], _connection=conn).run(), 60)
        await conn.disconnect()

    asyncio.run(main())
    stats["invocations_judged"] += 3
    stats["process_pool_provider_runs"] += 1
    fps.add("inproc/declared-then-overridden")
    got = dict((t, v) for t, v in received)
    d = got.get("declared")
    if not (isinstance(d, (tuple, list)) and d[0] == "declared" and d[1] != os.getpid()):
        out.append(V("value_mismatch", "run_in_process/declared", f"the provider declared with run_in_process=True delivered {d!r} (this process is {os.getpid()})"))
    want = {"override1": ("overridden", 1), "override2": ("overridden", 2)}
    for t, wv in want.items():
        if normalize(got.get(t)) != wv:
            out.append(V("override_ignored", "run_in_process/closure-override", f"after override(closure) the actor received {got.get(t)!r} for job {t}, expected {wv} (all executions: {received})"))


def expected_token(nodes, i, msgid, overrides):
    node = overrides.get(i, nodes[i])
    items = [(f"s{j}", expected_token(nodes, j, msgid, overrides)) for j in node["subs"]]
    if node["msg"]:
        items.append(("m", ("msg", msgid)))
    return (node["name"], tuple(sorted(items)))


def normalize(v):
    if isinstance(v, (list, tuple)):
        return tuple(normalize(x) for x in v)
    return v


async def graphs_scenario(loop, case, out, stats, fps, samples):
    from repid import Depends
    from rv.actors import make_dep_actor, make_provider
    from rv.wl import World, run_worker

    rnd = random.Random(case["seed"])
    w = World(loop, "mem", converter=case["conv"], seed=case["seed"])
    try:
        await w.open()
        r = w.router(retry_policy=lambda retry_number=1: timedelta(seconds=0.1))
        await w.conn.message_broker.queue_declare("default")
        received = []
        plans = []
        for gi in range(case["n"]):
            nodes = gen_graph(rnd)
            deps = []
            called = []
            for i, nd in enumerate(nodes):
                if nd["dep_defaults"] and (nd["subs"] or nd["msg"]):
                    stats["providers_with_defaulted_dependencies"] += 1
                prov = make_provider(nd["name"], [(f"s{j}", deps[j]) for j in nd["subs"]], is_async=nd["async"], extra_default=nd["plain"], record=called, msg_leaf=nd["msg"], dep_defaults=nd["dep_defaults"],
                                     suspend=rnd.choice([0.0, 0.0, 0.01, 0.05]))
                deps.append(Depends(prov))
            roots = sorted(rnd.sample(range(len(nodes)), rnd.randint(1, min(3, len(nodes)))))
            plain = []
            if case["conv"] == "basic" and rnd.random() < 0.3:
                plain.append(("po1", "po", inspect.Parameter.empty))
            if rnd.random() < 0.6:
                plain.append(("a", "pk", inspect.Parameter.empty))
            if rnd.random() < 0.4:
                plain.append(("b", "pk", 5))
            if rnd.random() < 0.4:
                plain.append(("k", "ko", 9))
            aname = f"g{gi}"
            body = make_dep_actor(aname, [(f"x{j}", deps[j]) for j in roots], plain, w.log, received)
            r.actor(name=aname)(body)
            payload = {p: idx + 100 for idx, (p, kind, d) in enumerate(plain) if d is inspect.Parameter.empty or rnd.random() < 0.5}
            plans.append({"actor": aname, "nodes": nodes, "deps": deps, "roots": roots, "plain": plain, "payload": payload, "called": called})
        worker = w.worker([r], tasks_limit=10, graceful_shutdown_time=5.0, handle_signals=[__import__("signal").SIGUSR1])
        from repid import Job

        phase_jobs = []

        async def enqueue_round(tag):
            ids = []
            for pi, p in enumerate(plans):
                id_ = f"{tag}{pi:02d}"
                await Job(p["actor"], id_=id_, args=p["payload"], retries=1, store_result=False, _connection=w.conn).enqueue()
                ids.append(id_)
            phase_jobs.append(ids)
            if tag == "a":
                # more messages of the same actors, in flight at the same time: per-message values must not leak across messages
                twins = []
                for rep in range(2):
                    for pi, p in enumerate(plans):
                        id_ = f"t{rep}{pi:02d}"
                        await Job(p["actor"], id_=id_, args=p["payload"], retries=1, store_result=False, _connection=w.conn).enqueue()
                        twins.append((pi, id_))
                phase_twins.extend(twins)
            return ids

        phase_twins = []

        # round 1: plain graphs; round 2: after overrides; round 3: with a failing provider
        await enqueue_round("a")
        task = loop.create_task(run_worker(w, worker, until=lambda: False, horizon=6.0, poll=0.05))
        await asyncio.sleep(1.0)
        overrides = [dict() for _ in plans]
        for pi, p in enumerate(plans):
            if rnd.random() < 0.7:
                i = rnd.randrange(len(p["nodes"]))
                cands = list(range(i))
                rnd.shuffle(cands)
                newnode = {"name": f"o{i}", "subs": sorted(cands[: rnd.choice([0, 1, 2])]), "async": rnd.random() < 0.5, "msg": rnd.random() < 0.3, "plain": None, "dep_defaults": rnd.random() < 0.4}
                prov = make_provider(newnode["name"], [(f"s{j}", p["deps"][j]) for j in newnode["subs"]], is_async=newnode["async"], record=p["called"], msg_leaf=newnode["msg"], dep_defaults=newnode.get("dep_defaults", False))
                p["deps"][i].override(prov)
                overrides[pi][i] = newnode
                stats["overrides_applied"] += 1
        await enqueue_round("b")
        await asyncio.sleep(1.0)
        failing = {}
        for pi, p in enumerate(plans):
            if rnd.random() < 0.5:
                # make a provider that is reachable from a root fail
                reach = set()

                def walk(i, pi=pi, p=p, reach=reach):
                    reach.add(i)
                    for j in overrides[pi].get(i, p["nodes"][i])["subs"]:
                        walk(j)

                for rt in p["roots"]:
                    walk(rt)
                i = rnd.choice(sorted(reach))
                nd = overrides[pi].get(i, p["nodes"][i])
                prov = make_provider("f" + nd["name"], [(f"s{j}", p["deps"][j]) for j in nd["subs"]], is_async=nd["async"], fail=True, record=p["called"], msg_leaf=nd["msg"])
                p["deps"][i].override(prov)
                failing[pi] = i
                stats["provider_failures"] += 1
        await enqueue_round("c")
        info = await task
        if info["exc"] is not None or not info["returned"]:
            out.append(V("worker_died", "run", f"{info}"))
        # ---- monitor
        by_id = {rc["id"]: rc for rc in received}
        counts = collections.Counter(rc["id"] for rc in received)
        jobs_iter = [(phase, pi, id_) for phase, ids in zip("abc", phase_jobs) for pi, id_ in enumerate(ids)] + [("a", pi, id_) for pi, id_ in phase_twins]
        stats["concurrent_twins"] += len(phase_twins)
        for phase, pi, id_ in jobs_iter:
            if True:
                p = plans[pi]
                ov = {} if phase == "a" else overrides[pi]
                shared = len([j for nd in p["nodes"] for j in nd["subs"]]) > len({j for nd in p["nodes"] for j in nd["subs"]})
                if shared:
                    stats["graphs_with_shared_subdeps"] += 1
                if any(nd["msg"] for nd in p["nodes"]):
                    stats["msg_leaves"] += 1
                edges = sum(len(nd["subs"]) for nd in p["nodes"])
                canon = (tuple((tuple(nd["subs"]), nd["async"], nd["msg"]) for nd in p["nodes"]), tuple(p["roots"]), tuple(sorted((k, tuple(v["subs"])) for k, v in ov.items())), phase == "c" and pi in failing, case["conv"])
                if edges:
                    fps.add(str(hash(canon)))
                stats["invocations_judged"] += 1
                ctx = f"{case['conv']}/{phase}"
                if phase == "c" and pi in failing:
                    # provider failure = failed execution: retried once (retries=1), then dead-lettered; the actor body never runs
                    if id_ in by_id:
                        out.append(V("provider_failure_disposition", ctx, f"{id_}: provider {failing[pi]} fails but the actor body ran"))
                    disp = [e["op"] for e in w.dispositions(id_)]
                    if disp != ["requeue", "nack"]:
                        out.append(V("provider_failure_disposition", ctx, f"{id_}: failing provider, terminal calls {disp}, expected ['requeue', 'nack']"))
                    continue
                rc = by_id.get(id_)
                if rc is None:
                    out.append(V("value_mismatch", ctx + "/not-run", f"{id_} (actor {p['actor']}) did not run; dispositions {[e['op'] for e in w.dispositions(id_)]}"))
                    continue
                if counts[id_] != 1:
                    out.append(V("value_mismatch", ctx + "/reruns", f"{id_} ran {counts[id_]} times"))
                for j in p["roots"]:
                    want = expected_token(p["nodes"], j, id_, ov)
                    got = normalize(rc["kwargs"].get(f"x{j}"))
                    if got != want:
                        rule = "override_ignored" if ov and phase != "a" and got == expected_token(p["nodes"], j, id_, {}) else "value_mismatch"
                        out.append(V(rule, ctx, f"{id_} parameter x{j}: got {got}, expected {want} (overrides {sorted(ov)})"))
                        break
                # payload arguments next to the dependencies
                for pname, kind, default in p["plain"]:
                    want = p["payload"].get(pname, default)
                    if kind == "po":
                        got = rc["args"][0] if rc["args"] else "<missing>"
                    else:
                        got = rc["kwargs"].get(pname, "<missing>")
                    if got != want:
                        out.append(V("value_mismatch", ctx + "/payload", f"{id_} payload parameter {pname} ({kind}): got {got!r}, expected {want!r}"))
                extra = set(rc["kwargs"]) - {f"x{j}" for j in p["roots"]} - {pn for pn, _, _ in p["plain"]}
                if extra:
                    out.append(V("value_mismatch", ctx + "/extra", f"{id_}: unexpected kwargs {sorted(extra)}"))
                if len(samples) < 1 and edges >= 2 and phase == "b" and ov:
                    samples.append({"converter": case["conv"], "graph": [{"name": nd["name"], "subs": nd["subs"], "async": nd["async"], "msg": nd["msg"]} for nd in p["nodes"]],
                                    "roots": p["roots"], "override": {str(k): v["subs"] for k, v in ov.items()}, "received": {k: str(v)[:120] for k, v in rc["kwargs"].items()}})
    finally:
        await w.close()


def declarations(out, stats, fps):
    from rv.actors import declarations as _d

    _d(out, stats, fps, V)


async def shadow_scenario(loop, case, out, stats, fps):
    """Payload keys that carry the NAME of a dependency parameter (x0, m): whatever the worker does with such a message,
    an invocation that does happen has its providers' values in those parameters."""
    from repid import Job
    from rv.actors import register_shadow_actors
    from rv.wl import World, run_worker

    w = World(loop, "mem", converter=case["conv"], seed=case["seed"])
    try:
        await w.open()
        r = w.router(retry_policy=lambda retry_number=1: timedelta(seconds=0.1))
        seen = []
        register_shadow_actors(r, seen, with_kwargs=case["conv"] == "basic")
        await w.conn.message_broker.queue_declare("default")
        from rv.actors import register_excvalue_actors

        seen_exc = []
        register_excvalue_actors(r, seen_exc)
        payloads = [{"a": 1}, {"a": 1, "x0": "from-payload"}, {"a": 1, "m": "from-payload"}, {"a": 1, "x0": ["from-payload"], "m": {"k": 1}, "zz": 3}]
        n = 0
        for name in ("shadowed", "shadowed_plain"):
            if name == "shadowed" and case["conv"] == "pydantic":
                continue  # (**kwargs actors are BasicConverter territory)
            for pl in payloads:
                await Job(name, id_=f"s{n}", args=pl, args_id=f"args-s{n}", retries=0, store_result=False, _connection=w.conn).enqueue()
                n += 1
        for name in ("takes_error", "takes_parent"):
            await Job(name, id_=f"s{n}", retries=0, store_result=False, _connection=w.conn).enqueue()
            n += 1
        worker = w.worker([r], tasks_limit=3, graceful_shutdown_time=3.0, handle_signals=[__import__("signal").SIGUSR1])
        done = lambda: len({e["id"] for e in w.log.events if e.get("k") == "call" and e.get("depth") == 0 and e.get("op") in ("ack", "nack")}) >= n  # noqa: E731
        info = await run_worker(w, worker, until=done, horizon=10.0, poll=0.1)
        if info["exc"] is not None or not info["returned"]:
            out.append(V("worker_died", "shadow", f"{info}"))
        fps.add(f"shadow/{case['conv']}")
        stats["shadowing_payload_jobs"] += n
        if not any(rc["extra"] == {} and rc["x0"] == ("provided", ()) for rc in seen):
            out.append(V("missing_invocation", "shadow", f"not even the plain payload ran: {seen[:2]}"))
        # a provider that RETURNS an exception object (or class) has returned a value like any other
        want_exc = {"takes_error": ("ConnectionResetError", "peer went away"), "takes_parent": (("parent", "KeyError", True), "StopIteration")}
        got_exc = {rc["actor"]: rc["value"] for rc in seen_exc}
        stats["exception_valued_providers"] += len(want_exc)
        for actor, want in want_exc.items():
            stats["invocations_judged"] += 1
            if normalize(got_exc.get(actor)) != normalize(want):
                out.append(V("value_mismatch" if actor in got_exc else "missing_invocation", f"{case['conv']}/provider-returns-an-exception-object", f"{actor}: received {got_exc.get(actor)!r}, its providers return {want!r}"))
        for rc in seen:
            stats["invocations_judged"] += 1
            if normalize(rc["x0"]) != ("provided", ()) or not rc["m_is_handle"]:
                out.append(V("value_mismatch", f"{case['conv']}/payload-key-named-like-a-dependency", f"{rc['id']}: the actor ran with x0={rc['x0']!r}, m is a message handle: {rc['m_is_handle']} (its provider returns ('provided', ()))"))
    finally:
        await w.close()


async def twice_scenario(loop, case, out, stats, fps):
    """Several separately constructed Depends objects wrap the SAME provider function (in one actor, in a second actor, and
    as a sub-dependency): overriding one of them replaces the provider exactly where that object is used, nowhere else."""
    from repid import Depends
    from rv.actors import make_dep_actor, make_provider
    from rv.wl import World, run_worker

    w = World(loop, "mem", converter=case["conv"], seed=case["seed"])
    try:
        await w.open()
        r = w.router(retry_policy=lambda retry_number=1: timedelta(seconds=0.1))
        await w.conn.message_broker.queue_declare("default")
        received, called = [], []
        f = make_provider("same", [], is_async=case["async"], record=called)
        g = make_provider("other", [], is_async=not case["async"], record=called)
        d = [Depends(f), Depends(f), Depends(f), Depends(f)]  # four objects, one function
        parent = Depends(make_provider("parent", [("s0", d[3])], is_async=True, record=called))
        r.actor(name="t1")(make_dep_actor("t1", [("x0", d[0]), ("x1", d[1])], [], w.log, received))
        deps2 = [("y0", d[2])] + ([("y1", parent)] if case["nested"] else [])
        r.actor(name="t2")(make_dep_actor("t2", deps2, [], w.log, received))
        target = [1, 2, 3][case["which"]] if case["nested"] or case["which"] < 2 else 1
        d[target].override(g)
        stats["overrides_applied"] += 1
        from repid import Job

        for n in ("t1", "t2"):
            await Job(n, id_=f"{n}-1", store_result=False, _connection=w.conn).enqueue()
        worker = w.worker([r], tasks_limit=3, graceful_shutdown_time=3.0, handle_signals=[__import__("signal").SIGUSR1])
        info = await run_worker(w, worker, until=lambda: len(received) >= 2, horizon=10.0, poll=0.1)
        if info["exc"] is not None or not info["returned"]:
            out.append(V("worker_died", "twice", f"{info}"))
        tok = {i: (("other", ()) if i == target else ("same", ())) for i in range(4)}
        want = {"t1": {"x0": tok[0], "x1": tok[1]}, "t2": {"y0": tok[2], **({"y1": ("parent", (("s0", tok[3]),))} if case["nested"] else {})}}
        fps.add(f"twice/{case['conv']}/{case['async']}/{target}/{case['nested']}")
        stats["same_function_depends_runs"] += 1
        for rc in received:
            stats["invocations_judged"] += 1
            got = {k: normalize(v) for k, v in rc["kwargs"].items()}
            exp = {k: normalize(v) for k, v in want[rc["actor"]].items()}
            if got != exp:
                out.append(V("value_mismatch", f"{case['conv']}/same-function-depends", f"{rc['actor']}: Depends object #{target} (of four wrapping one provider function) was overridden: got {got}, expected {exp}"))
        if len(received) < 2:
            out.append(V("missing_invocation", "twice", f"only {[rc['actor'] for rc in received]} ran"))
    finally:
        await w.close()


async def fresh_scenario(loop, case, out, stats, fps):
    """The same message id is executed several times (retries after failures, explicit m.retry(), iterations of a recurring
    job): every execution's message dependency - in the actor and in its provider - must describe the CURRENT delivery."""
    from datetime import timedelta

    from rv.actors import register_fresh_actor
    from rv.wl import World, run_worker

    w = World(loop, "mem", converter="basic", seed=case["seed"])
    try:
        await w.open()
        r = w.router(retry_policy=lambda retry_number=1: timedelta(seconds=0.2))
        seen = []
        kept = register_fresh_actor(r, "fresh", seen, case["keep"], case["fails"], case["via_retry"])
        await w.conn.message_broker.queue_declare("default")
        kw = {"deferred_by": timedelta(seconds=1.0)} if case["recurring"] else {}
        from repid import Job

        job = Job("fresh", id_="f1", retries=5, timeout=timedelta(seconds=30), store_result=False, _connection=w.conn, **kw)
        await job.enqueue()
        want = case["fails"] + 1 + (2 if case["recurring"] else 0)
        worker = w.worker([r], tasks_limit=3, graceful_shutdown_time=3.0, handle_signals=[__import__("signal").SIGUSR1])
        info = await run_worker(w, worker, until=lambda: len(seen) >= want, horizon=20.0, poll=0.1)
        if info["exc"] is not None or not info["returned"]:
            out.append(V("worker_died", "fresh", f"{info}"))
        deliveries = [e for e in w.log.events if e.get("k") == "ret" and e.get("op") == "consume" and e.get("id") == "f1"]
        fps.add(f"fresh/{case['keep']}/{case['via_retry']}/{case['fails']}/{case['recurring']}")
        stats["fresh_runs"] += 1
        if len(seen) < case["fails"] + 1:
            out.append(V("missing_invocation", "fresh", f"only {len(seen)} executions of f1 in 20 s, expected at least {case['fails'] + 1}; deliveries {len(deliveries)}"))
        for i, rec in enumerate(seen):
            stats["invocations_judged"] += 1
            stats["fresh_executions"] += 1
            truth = (deliveries[i].get("params") or {}).get("tried") if i < len(deliveries) else None
            for who in ("actor", "provider"):
                got = rec[who]["tried"]
                if truth is not None and got != truth:
                    out.append(V("value_mismatch", f"message-dependency/stale-{who}", f"execution {i + 1} of f1 (delivered with already_tried={truth}): the {who}'s message dependency says already_tried={got}; keep={case['keep']} via_retry={case['via_retry']}"))
                if rec[who]["read_only"]:
                    out.append(V("value_mismatch", f"message-dependency/used-{who}", f"execution {i + 1} of f1 received a message dependency that is already read-only"))
        del kept
    finally:
        await w.close()


def run_case(case):
    from rv.sim import loop as vl

    stats = collections.Counter()
    out, fps, samples = [], set(), []
    if case["type"] == "declarations":
        declarations(out, stats, fps)
    elif case["type"] == "awaitable":
        try:
            awaitable_case(case, out, stats, fps)
        except Exception as exc:  # noqa: BLE001
            out.append(V("harness_or_api_error", "awaitable", f"{type(exc).__name__}: {exc}"))
    elif case["type"] == "inproc":
        try:
            inproc_case(case, out, stats, fps)
        except Exception as exc:  # noqa: BLE001
            out.append(V("harness_or_api_error", "inproc", f"{type(exc).__name__}: {exc}"))
    elif case["type"] == "shadow":
        res = vl.run(lambda loop: shadow_scenario(loop, case, out, stats, fps), max_steps=4_000_000, seed=case["seed"])
        if res.exc is not None:
            out.append(V("harness_or_api_error", "shadow", f"{type(res.exc).__name__}: {res.exc}"))
    elif case["type"] == "twice":
        res = vl.run(lambda loop: twice_scenario(loop, case, out, stats, fps), max_steps=4_000_000, seed=case["seed"])
        if res.exc is not None:
            out.append(V("harness_or_api_error", "twice", f"{type(res.exc).__name__}: {res.exc}"))
    elif case["type"] == "fresh":
        res = vl.run(lambda loop: fresh_scenario(loop, case, out, stats, fps), max_steps=4_000_000, seed=case["seed"])
        if res.exc is not None:
            out.append(V("harness_or_api_error", "fresh", f"{type(res.exc).__name__}: {res.exc}"))
    else:
        res = vl.run(lambda loop: graphs_scenario(loop, case, out, stats, fps, samples), max_steps=4_000_000, seed=case["seed"])
        if res.exc is not None:
            out.append(V("harness_or_api_error", "scenario", f"{type(res.exc).__name__}: {res.exc}"))
    seen, vv = set(), []
    for v in out:
        if (v["rule"], v["context"]) not in seen:
            seen.add((v["rule"], v["context"]))
            vv.append(v)
    r = {"fp": None, "fps": sorted(fps), "viol": vv[:8], "stats": dict(stats)}
    if samples:
        r["sample"] = samples[0]
    return r

"""C14 - a message is held by at most one consumer at a time.

(a) redis: two consumers on separate connections take one message while a network gate orders their server-visible
    commands: ALL interleavings of the two five-command takes are enumerated; larger cases (k consumers, n messages,
    full consume/ack/reject/finish loops) under seeded random gate schedules; rabbit: random gate schedules;
(b) mem: k consumer tasks interleaved at every yield point by start offsets;
(c) 2-3 Workers on one queue with short successful actors on every broker: each job is executed exactly once;
(d) relay: a seeded random walk of consume / reject / requeue / ack / finish / start over 2-3 consumers and 1-3 messages
    on every broker (a message that changed hands must not be brought back by its previous holder's shutdown).
Monitor: per message id, deliveries and returns must alternate.
"""
from __future__ import annotations

import asyncio
import collections
import itertools
import random
from datetime import timedelta

LEVEL = "exploration"
RULE = ("(a) redis 2 consumers x 1 message: all C(10,5)=252 orders of the 5+5 gated commands (exhaustive), plus k in {2,3,4} consumers x 1-15 "
        "messages under seeded random gate schedules on redis and rabbit; (b) mem: k consumers started at every step offset; (c) 2-3 Workers "
        "per queue x brokers; evaluation = one scenario's per-id delivery/return sequence judged; fingerprint = hash of the server-side "
        "(client, command) order (a), (offsets) (b), (broker, workers, jobs) (c); trivial = scenarios with a single consumer")
ASSUMPTIONS = ["Redis and RabbitMQ are wire-level fakes; the gate delays a client's command at the server, which is what arbitrary network latency can do",
               "redis priority polling order pinned (priorities_distribution 1/0/0) in the exhaustive enumeration so that a take is exactly five commands"]
EVAL_COUNTER = "scenarios_judged"
REQUIRED = ["scenarios_judged", "exhaustive_orders", "gated_random_runs", "mem_offset_runs", "multi_worker_runs", "deliveries_seen", "relay_runs", "relay_returns", "relay_finish_while_other_holds", "relay_handover_patterns", "maintenance_while_held", "finish_while_take_in_flight", "stops_while_other_worker_runs", "handover_windows_seen", "timezone_offset_runs", "jobs_retried_without_backoff", "handovers_from_a_slowly_unwinding_execution", "fetched_ahead_messages_outliving_their_timeout"]
CASE_TIMEOUT = 150


def gen_cases(tier, seed):
    rnd = random.Random(seed)
    cases = []
    orders = list(itertools.combinations(range(10), 5))  # positions of client A's commands among 10
    chunk = 21 if tier == "quick" else 12
    for i in range(0, len(orders), chunk):
        cases.append({"type": "exhaustive", "orders": [list(o) for o in orders[i:i + chunk]], "seed": 1})
        # the same orders with consumer A shut down while one of its five commands is still on the wire
        cases.append({"type": "exhaustive", "fin": True, "orders": [list(o) for o in orders[i:i + chunk]], "seed": 1})
    n = {"quick": 12, "thorough": 150}[tier]
    for kind in ("redis", "rabbit"):
        for i in range(n):
            cases.append({"type": "gated", "kind": kind, "k": rnd.choice([2, 2, 3, 4]), "n": rnd.choice([1, 2, 5, 15]), "seed": rnd.randrange(10**6)})
    for i in range({"quick": 10, "thorough": 120}[tier]):
        cases.append({"type": "mem", "k": rnd.choice([2, 3]), "n": rnd.choice([1, 2, 4]), "seed": rnd.randrange(10**6)})
    for kind in ("mem", "redis", "rabbit"):
        for i in range({"quick": 30 if kind == "mem" else 6, "thorough": 150 if kind == "mem" else 40}[tier]):
            cases.append({"type": "relay", "kind": kind, "k": rnd.choice([2, 3]), "n": rnd.choice([1, 1, 2, 3]), "seed": rnd.randrange(10**6), "ops": rnd.choice([12, 25, 40])})
    # redis: broker maintenance (run by every connect/disconnect of any client) while a message is held
    for i, to in enumerate([600.0, 86400.0, 90000.0, 604800.0, 86399.0, 172800.5] if tier == "thorough" else [600.0, 86400.0, 604800.0, 90000.0]):
        cases.append({"type": "maint", "kind": "redis", "timeout": to, "wait": [1.5, 3.0, 61.0][i % 3], "seed": rnd.randrange(10**6)})
        # the same on a machine whose local time is ahead of / behind UTC (in-flight marks are UNIX times, "now" is local)
        cases.append({"type": "maint", "kind": "redis", "timeout": to, "wait": [1.5, 3.0, 61.0][i % 3], "seed": rnd.randrange(10**6), "tz": ["MSK-3", "JST-9", "EST5", "NPT-5:45"][i % 4]})
    for n_ in ((1, 3) if tier == "quick" else (1, 2, 3, 8)):
        cases.append({"type": "backlog_timeout", "kind": "redis", "n": n_, "seed": rnd.randrange(10**6), "pause": True})
        cases.append({"type": "backlog_timeout", "kind": "redis", "n": n_, "seed": rnd.randrange(10**6), "pause": False})
    for kind in ("mem", "redis", "rabbit"):
        for i in range({"quick": 4, "thorough": 40}[tier]):
            cases.append({"type": "workers", "kind": kind, "k": rnd.choice([2, 3]), "n": rnd.choice([3, 8, 20]), "seed": rnd.randrange(10**6), "tl": rnd.choice([1, 3, 1000])})
        # directed: retries without back-off, one worker (the retried copy comes back to the broker object that is still
        # settling the old one) and two; on RabbitMQ the server hands the new copy out before it confirms the publish
        for k_ in (1, 2):
            for tl_ in (3, 1000):
                cases.append({"type": "workers", "kind": kind, "k": k_, "n": 9, "seed": 2 * rnd.randrange(10**5), "tl": tl_, "dbc": "always" if tl_ == 3 else "random"})
        # a worker's grace period runs out while an actor that needs a while to unwind is still running; the message goes to
        # the next consumer, which must remain its only holder - also at the moment the old execution finally ends
        for cleanup in ((2.0,) if tier == "quick" else (0.5, 2.0, 4.0)):
            cases.append({"type": "unwind", "kind": kind, "cleanup": cleanup, "seed": rnd.randrange(10**6)})
        # one of two saturated workers is told to stop (long graceful period: nothing is cancelled) at loop steps placed in and
        # around its consume loop's pause / slot wait / un-pause hand-over; the other one carries on
        for i in range({"quick": 2, "thorough": 10}[tier]):
            cases.append({"type": "workers_stop", "kind": kind, "n": rnd.choice([6, 9]), "seed": rnd.randrange(10**6), "tl": rnd.choice([1, 1, 2]), "d": rnd.choice([0.05, 0.2]),
                          "points": {"quick": 14, "thorough": 40}[tier]})
    return cases


def V(rule, kind, ctx, detail):
    return {"rule": rule, "broker": kind, "context": ctx, "detail": detail}


class Gate:
    """Parks every gated server command of every client; the controller releases them one at a time."""

    def __init__(self, loop):
        self.loop = loop
        self.parked = collections.defaultdict(collections.deque)  # label -> deque[(future, cmd)]
        self.order = []
        self.open = False

    async def __call__(self, label, cmd):
        if self.open:
            self.order.append((label, self.name(cmd)))
            return
        fut = self.loop.create_future()
        self.parked[label].append((fut, cmd))
        await fut

    @staticmethod
    def name(cmd):
        if isinstance(cmd, str):
            return cmd
        c0 = cmd[0]
        return c0.decode() if isinstance(c0, bytes) else str(c0)

    def release(self, label):
        fut, cmd = self.parked[label].popleft()
        self.order.append((label, self.name(cmd)))
        if not fut.done():
            fut.set_result(None)

    def release_all(self):
        self.open = True
        for label in list(self.parked):
            while self.parked[label]:
                self.release(label)


def judge_alternation(events, kind, ctx, out, stats, double_takes=()):
    """events: list of (n, 'D'|'R', id, who). Per id deliveries and returns must alternate, starting with a delivery."""
    per = collections.defaultdict(list)
    for n, what, id_, who in sorted(events):
        per[id_].append((what, who))
    for id_, seq in per.items():
        held_by = None
        for what, who in seq:
            if what == "D":
                stats["deliveries_seen"] += 1
                if held_by is not None:
                    explained = any(id_ in str(name) for (_lab, name, _t) in double_takes)
                    c = "read-then-remove-race" if explained else ctx
                    out.append(V("double_delivery", kind, c, f"{id_} delivered to {who} while {held_by} still holds it (sequence {seq[:8]})"))
                    break
                held_by = who
            else:
                held_by = None


async def exhaustive(loop, order_a, out, stats, fps, fin_at=None):
    """Two redis consumers, one message; A's five commands take the positions `order_a` among the ten.
    fin_at: A.finish() is called while A's fin_at-th command is still parked at the server (its take may be in flight)."""
    from repid.message import MessageCategory
    from rv.rigs import Rig, key_of

    rig = Rig("redis", loop, latency=None, broker_attrs={"priorities_distribution": "1/0/0"})
    try:
        ca, cb = rig.make_connection("pa"), rig.make_connection("pb")
        await ca.connect()
        await cb.connect()
        P = ca.message_broker.PARAMETERS_CLASS
        await ca.message_broker.enqueue(key_of(ca, "m1", "t", "q", 9), "p", P())
        gate = Gate(loop)
        rig.server.gate = gate
        consA = ca.message_broker.get_consumer("q", None, None, MessageCategory.NORMAL)
        consB = cb.message_broker.get_consumer("q", None, None, MessageCategory.NORMAL)
        await consA.start()
        await consB.start()
        schedule = ["redis-pa" if i in order_a else "redis-pb" for i in range(10)]
        na = 0
        fin_task = None
        for label in schedule:
            for _ in range(2000):
                if gate.parked[label]:
                    break
                await asyncio.sleep(0.001)
            if not gate.parked[label]:
                if label == "redis-pa" and fin_task is not None:
                    continue
                break  # that client has nothing more to say (e.g. it found the queue empty and went to sleep)
            if label == "redis-pa":
                if fin_at is not None and na == fin_at and fin_task is None:
                    fin_task = loop.create_task(consA.finish())  # shutdown while this command is on the wire
                    for _ in range(5):
                        await asyncio.sleep(0)
                na += 1
            gate.release(label)
            await asyncio.sleep(0.0002)
        gate.release_all()
        gate.open = True
        await asyncio.sleep(0.5)
        if fin_task is not None:
            await asyncio.wait_for(fin_task, 10)
            stats["finish_while_take_in_flight"] += 1
        got = []
        consumers = [("A", consA), ("B", consB)] if fin_task is None else [("B", consB)]
        if fin_task is not None:
            consC = cb.message_broker.get_consumer("q", None, None, MessageCategory.NORMAL)
            await consC.start()
            consumers.append(("C", consC))
            consumers.append(("B", consB))  # B's own prefetcher may be the one that is handed the message again
        for name, cons in consumers:
            try:
                key, _, _ = await asyncio.wait_for(cons.consume(), 2.5 if name == "C" else 0.35)
                got.append((name, key.id_))
            except asyncio.TimeoutError:
                pass
        stats["exhaustive_orders"] += 1
        stats["scenarios_judged"] += 1
        import hashlib

        fps.add(hashlib.sha1(repr(gate.order[:12]).encode()).hexdigest()[:12])
        events = [(i, "D", id_, who) for i, (who, id_) in enumerate(got)]
        judge_alternation(events, "redis", "exhaustive-2x1", out, stats, rig.server.double_takes)
        if not got and fin_task is None:
            out.append(V("lost", "redis", "exhaustive-2x1", f"order {order_a}: nobody received m1; server order {gate.order[:12]}; state {rig.snapshot()}"))
        rig.server.gate = None
        if fin_task is None:
            await consA.finish()
        else:
            await consC.finish()
        await consB.finish()
        await ca.disconnect()
        await cb.disconnect()
        return gate.order[:12], got
    finally:
        rig.close()


async def gated(loop, case, out, stats, fps, samples):
    """k consumers (own connections) run consume/ack|reject loops while a random scheduler orders their commands."""
    from repid.message import MessageCategory
    from rv.rigs import Rig, key_of

    kind = case["kind"]
    rnd = random.Random(case["seed"])
    rig = Rig(kind, loop, latency=None, seed=case["seed"])
    try:
        prod = rig.make_connection("prod")
        await prod.connect()
        await prod.message_broker.queue_declare("q")
        P = prod.message_broker.PARAMETERS_CLASS
        for i in range(case["n"]):
            await prod.message_broker.enqueue(key_of(prod, f"m{i:02d}", "t", "q", rnd.choice([0, 5, 9]) if kind == "redis" else 5), "p", P())
        conns = []
        for i in range(case["k"]):
            c = rig.make_connection(f"c{i}")
            await c.connect()
            conns.append(c)
        gate = Gate(loop)
        rig.server.gate = gate
        events = []
        seq = itertools.count()
        acked = set()

        async def client(i, conn):
            cons = conn.message_broker.get_consumer("q", None, rnd.choice([None, 1, 3]), MessageCategory.NORMAL)
            await cons.start()
            try:
                for _ in range(case["n"] + 3):
                    try:
                        key, _, _ = await asyncio.wait_for(cons.consume(), 4.0)
                    except asyncio.TimeoutError:
                        break
                    events.append((next(seq), "D", key.id_, f"c{i}"))
                    await asyncio.sleep(rnd.choice([0, 0.01, 0.2]))
                    if rnd.random() < 0.25:
                        events.append((next(seq), "R", key.id_, f"c{i}"))
                        await conn.message_broker.reject(key)
                    else:
                        await conn.message_broker.ack(key)
                        acked.add(key.id_)
            finally:
                await cons.finish()

        tasks = [loop.create_task(client(i, c)) for i, c in enumerate(conns)]

        async def scheduler():
            while not all(t.done() for t in tasks):
                ready = [lab for lab, dq in gate.parked.items() if dq]
                if ready:
                    gate.release(rnd.choice(sorted(ready)))
                    await asyncio.sleep(0)
                else:
                    await asyncio.sleep(0.003)

        sched = loop.create_task(scheduler())
        await asyncio.wait(tasks, timeout=120)
        sched.cancel()
        gate.release_all()
        for t in tasks:
            if not t.done():
                t.cancel()
        stats["gated_random_runs"] += 1
        stats["scenarios_judged"] += 1
        import hashlib

        if case["k"] > 1:
            fps.add(hashlib.sha1(repr(gate.order[:400]).encode()).hexdigest()[:12])
        dt = rig.server.double_takes if kind == "redis" else ()
        judge_alternation(events, kind, f"gated/k={case['k']}", out, stats, dt)
        if len(samples) < 1:
            samples.append({"broker": kind, "consumers": case["k"], "messages": case["n"], "server_order_head": [f"{a}:{b}" for a, b in gate.order[:16]], "deliveries": [(i, who) for _, w_, i, who in events if w_ == "D"][:10]})
        rig.server.gate = None
        for c in conns + [prod]:
            try:
                await asyncio.wait_for(c.disconnect(), 10)
            except Exception:  # noqa: BLE001
                pass
        stats["unknown_server_commands"] += rig.unknown_commands()
    finally:
        rig.close()


async def mem_offsets(loop, case, out, stats, fps):
    """In-memory broker: k consumer tasks; task i starts after offsets[i] loop iterations of the others."""
    from repid.message import MessageCategory
    from rv.rigs import Rig, key_of

    rnd = random.Random(case["seed"])
    rig = Rig("mem", loop)
    try:
        conn = rig.make_connection("p1")
        await conn.connect()
        mb = conn.message_broker
        await mb.queue_declare("q")
        P = mb.PARAMETERS_CLASS
        from datetime import datetime as _dt

        from repid.data._parameters import DelayProperties

        for i in range(case["n"]):
            await mb.enqueue(key_of(conn, f"m{i:02d}", "t", "q"), "p", P())
        # delayed messages that become due while the consumers are polling (promotion to the normal queue happens inside
        # consume(); all consumers re-enter consume() at the same virtual instants)
        for i in range(rnd.randint(1, 3)):
            due = _dt.now() + timedelta(seconds=rnd.choice([0.01, 0.03, 0.07, 0.12]))
            await mb.enqueue(key_of(conn, f"d{i:02d}", "t", "q"), "p", P(delay=DelayProperties(next_execution_time=due)))
        events = []
        seq = itertools.count()
        offsets = [rnd.randint(0, 12) for _ in range(case["k"])]

        async def client(i):
            for _ in range(offsets[i]):
                await asyncio.sleep(0)
            cons = mb.get_consumer("q", None, None, MessageCategory.NORMAL)
            await cons.start()
            held = []
            empty = 0
            for _ in range(case["n"] + 12):
                try:
                    key, _, _ = await asyncio.wait_for(cons.consume(), 0.05)
                except asyncio.TimeoutError:
                    empty += 1
                    if empty > 4:
                        break
                    continue
                events.append((next(seq), "D", key.id_, f"c{i}"))
                for _ in range(rnd.randint(0, 5)):
                    await asyncio.sleep(0)
                r = rnd.random()
                if r < 0.25:
                    events.append((next(seq), "R", key.id_, f"c{i}"))
                    await mb.reject(key)
                elif r < 0.4:
                    held.append(key)  # keep it; finish() below returns it
                else:
                    await mb.ack(key)
            for key in held:
                events.append((next(seq), "R", key.id_, f"c{i}"))
            await cons.finish()

        await asyncio.wait([loop.create_task(client(i)) for i in range(case["k"])], timeout=60)
        # finish() of one consumer while another still holds messages: nothing of the holder's may come back
        for i in range(3):
            await mb.enqueue(key_of(conn, f"h{i}", "t", "q"), "p", P())
        holder = mb.get_consumer("q", None, None, MessageCategory.NORMAL)
        await holder.start()
        hk = []
        for i in range(rnd.randint(1, 3)):
            key, _, _ = await asyncio.wait_for(holder.consume(), 1)
            hk.append(key)
            events.append((next(seq), "D", key.id_, "holder"))
        other = mb.get_consumer("q", None, None, MessageCategory.NORMAL)
        await other.start()
        if rnd.random() < 0.5:
            try:
                key, _, _ = await asyncio.wait_for(other.consume(), 0.05)
                events.append((next(seq), "D", key.id_, "other"))
                events.append((next(seq), "R", key.id_, "other"))  # returned by other's own finish below
            except asyncio.TimeoutError:
                pass
        await other.finish()
        third = mb.get_consumer("q", None, None, MessageCategory.NORMAL)
        await third.start()
        while True:
            try:
                key, _, _ = await asyncio.wait_for(third.consume(), 0.05)
            except asyncio.TimeoutError:
                break
            events.append((next(seq), "D", key.id_, "third"))
            await mb.ack(key)
        for key in hk:
            await mb.ack(key)
        await third.finish()
        await holder.finish()
        stats["mem_offset_runs"] += 1
        stats["scenarios_judged"] += 1
        fps.add(f"mem/{case['k']}/{case['n']}/{offsets}")
        judge_alternation(events, "mem", f"offsets/k={case['k']}", out, stats)
        await conn.disconnect()
    finally:
        rig.close()


async def relay(loop, case, out, stats, fps):
    """A message changes hands: one driver performs a seeded random walk over consume / return (reject, requeue) / ack /
    finish / start on 2-3 consumers sharing a queue. What a consumer gave back belongs to whoever is handed it next: a
    later finish() of the previous holder (or anything else) must not bring it back while the new holder has it."""
    from repid.message import MessageCategory
    from rv.rigs import Rig, key_of

    kind = case["kind"]
    rnd = random.Random(case["seed"])
    rig = Rig(kind, loop, seed=case["seed"])
    idle = {"mem": 0.05, "redis": 2.5, "rabbit": 0.6}[kind]
    try:
        conns = [rig.make_connection(f"p{i}") for i in range(1 if kind == "mem" else 2)]
        for c in conns:
            await c.connect()
        mb0 = conns[0].message_broker
        await mb0.queue_declare("q")
        P = mb0.PARAMETERS_CLASS
        for i in range(case["n"]):
            await mb0.enqueue(key_of(conns[0], f"m{i:02d}", "t", "q"), "p0", P())
        events, seq = [], itertools.count()
        cons = []  # dicts: obj, conn, started, held {id: key}
        acked = set()

        async def start():
            conn = rnd.choice(conns)
            c = {"obj": conn.message_broker.get_consumer("q", None, rnd.choice([None, 1, 5]), MessageCategory.NORMAL), "conn": conn, "started": True, "held": {}, "name": f"c{len(cons)}"}
            await c["obj"].start()
            cons.append(c)

        for _ in range(case["k"]):
            await start()
        walk = []
        forced = []  # (op, consumer) pairs queued by the hand-over pattern below
        for _ in range(case["ops"]):
            started = [c for c in cons if c["started"]]
            holders = [c for c in cons if c["held"]]
            choices = ["consume"] * 5 * bool(started) + ["return"] * 4 * bool(holders) + ["ack"] * bool(holders) + ["finish"] * 2 * (len(started) > 0) + ["start"] * (len(started) < case["k"])
            op = rnd.choice(choices)
            pick = None
            while forced:
                fop, fc = forced.pop(0)
                if fc["started"]:
                    op, pick = fop, fc
                    break
            if op == "consume":
                c = pick or rnd.choice(started)
                try:
                    key, _, _ = await asyncio.wait_for(c["obj"].consume(), idle)
                except asyncio.TimeoutError:
                    walk.append(f"{c['name']}.consume:-")
                    continue
                walk.append(f"{c['name']}.consume:{key.id_}")
                events.append((next(seq), "D", key.id_, c["name"]))
                if key.id_ in acked:
                    out.append(V("double_delivery", kind, "relay/after-ack", f"{key.id_} delivered to {c['name']} after it had been acknowledged; walk {walk[-12:]}"))
                c["held"][key.id_] = key
            elif op in ("return", "ack"):
                c = rnd.choice(holders)
                id_ = rnd.choice(sorted(c["held"]))
                key = c["held"].pop(id_)
                mb = c["conn"].message_broker
                if op == "ack":
                    walk.append(f"{c['name']}.ack:{id_}")
                    await mb.ack(key)
                    acked.add(id_)
                    events.append((next(seq), "R", id_, c["name"]))
                else:
                    how = rnd.choice(["reject", "reject", "requeue"])
                    walk.append(f"{c['name']}.{how}:{id_}")
                    events.append((next(seq), "R", id_, c["name"]))
                    if how == "reject":
                        await mb.reject(key)
                    else:
                        await mb.requeue(key, "p1", P())
                    stats["relay_returns"] += 1
                    rivals = [o for o in started if o is not c]
                    if rivals and c["started"] and rnd.random() < 0.5:
                        # hand-over pattern: a rival takes what was just given back, then the previous holder shuts down
                        forced = [("consume", rnd.choice(rivals)), ("finish", c)]
                        if rnd.random() < 0.5:
                            forced.append(("consume", rnd.choice(rivals)))
                        stats["relay_handover_patterns"] += 1
            elif op == "finish":
                c = pick or rnd.choice(started)
                walk.append(f"{c['name']}.finish")
                # what it still holds may legally come back (its own shutdown); nothing else may
                for id_ in c["held"]:
                    events.append((next(seq), "R", id_, c["name"]))
                others_hold = any(o["held"] for o in cons if o is not c)
                await asyncio.wait_for(c["obj"].finish(), 30)
                c["started"] = False
                c["held"] = {}
                if others_hold:
                    stats["relay_finish_while_other_holds"] += 1
            else:
                walk.append("start")
                await start()
            if kind != "mem":
                await asyncio.sleep(0.01)
        # drain: everything not acknowledged and not held must be deliverable exactly once more
        for c in cons:
            if c["started"]:
                for id_ in c["held"]:
                    events.append((next(seq), "R", id_, c["name"]))
                await asyncio.wait_for(c["obj"].finish(), 30)
        still_held = {id_: c["name"] for c in cons for id_ in c["held"]}
        stats["relay_runs"] += 1
        stats["scenarios_judged"] += 1
        fps.add(f"relay/{kind}/" + ",".join(w.split(":")[0] for w in walk))
        n0 = len(out)
        judge_alternation(events, kind, "relay", out, stats)
        for v in out[n0:]:
            v["detail"] += f"; walk {walk}"
        for c in conns:
            await c.disconnect()
        stats["unknown_server_commands"] += rig.unknown_commands()
    finally:
        rig.close()


async def maint(loop, case, out, stats, fps):
    """Redis keeps in-flight state at the server and every client runs maintenance() when it connects or disconnects:
    a message that is being held - well inside its execution timeout - must not be handed out again by that."""
    from repid.message import MessageCategory
    from rv.rigs import Rig, key_of

    rig = Rig("redis", loop, seed=case["seed"])
    try:
        c1 = rig.make_connection("p1")
        await c1.connect()
        mb = c1.message_broker
        await mb.queue_declare("q")
        P = mb.PARAMETERS_CLASS
        to = timedelta(seconds=case["timeout"])
        await mb.enqueue(key_of(c1, "m1", "t", "q"), "p", P(execution_timeout=to))
        a = mb.get_consumer("q", None, None, MessageCategory.NORMAL)
        await a.start()
        key, _, _ = await asyncio.wait_for(a.consume(), 5)
        events = [(0, "D", key.id_, "holder")]
        await asyncio.sleep(case["wait"])
        await rig.quiesce_wire()
        # another client comes and goes (maintenance runs twice), then a third one listens
        c2 = rig.make_connection("p2")
        await c2.connect()
        await c2.disconnect()
        c3 = rig.make_connection("p3")
        await c3.connect()
        b = c3.message_broker.get_consumer("q", None, None, MessageCategory.NORMAL)
        await b.start()
        try:
            k2, _, _ = await asyncio.wait_for(b.consume(), 3.0)
            events.append((1, "D", k2.id_, "bystander"))
        except asyncio.TimeoutError:
            pass
        await b.finish()
        await mb.ack(key)
        await a.finish()
        stats["maintenance_while_held"] += 1
        stats["scenarios_judged"] += 1
        fps.add(f"maint/{case['timeout']}/{case['wait']}")
        judge_alternation(events, "redis", f"maintenance/timeout>={'1day' if case['timeout'] >= 86400 else '<1day'}", out, stats)
        for c in (c3, c1):
            await c.disconnect()
        stats["unknown_server_commands"] += rig.unknown_commands()
    finally:
        rig.close()


async def backlog_timeout(loop, case, out, stats, fps):
    """Redis: messages a consumer has fetched ahead (not handed out yet) outlive their execution timeout there; another client's
    maintenance returns them to the queue; then the first consumer shuts down. Every message is delivered once from then on."""
    from repid.message import MessageCategory
    from rv.rigs import Rig, key_of

    rig = Rig("redis", loop, seed=case["seed"], latency=0.002)
    try:
        c1 = rig.make_connection("p1")
        await c1.connect()
        mb = c1.message_broker
        await mb.queue_declare("q")
        P = mb.PARAMETERS_CLASS
        ids = [f"b{i}" for i in range(case["n"])]
        for id_ in ids:
            await mb.enqueue(key_of(c1, id_, "t", "q"), "p", P(execution_timeout=timedelta(seconds=1)))
        a = mb.get_consumer("q", None, None, MessageCategory.NORMAL)
        await a.start()  # fetches ahead into its local buffer; the application never asks for anything
        if case.get("pause"):
            # (what a worker whose slots are all busy does; an un-paused consumer goes on polling and can fetch the returned
            # messages a second time - see the listed finding below)
            await asyncio.sleep(0.6)
            await a.pause()
        await asyncio.sleep(3.2)
        await rig.quiesce_wire()
        c2 = rig.make_connection("p2")
        await c2.connect()  # maintenance: whatever has been marked in flight for more than its second goes back
        await asyncio.sleep(0.2)
        await asyncio.wait_for(a.finish(), 20)
        await asyncio.sleep(0.2)
        seen = collections.Counter()
        holders = []
        for lab, conn in (("C", c1), ("D", c2)):
            cons = conn.message_broker.get_consumer("q", None, None, MessageCategory.NORMAL)
            await cons.start()
            holders.append((cons, conn))
            while True:
                try:
                    k, _pl, _pr = await asyncio.wait_for(cons.consume(), 2.5)
                except asyncio.TimeoutError:
                    break
                seen[k.id_] += 1  # (held, not settled: a second copy would go to the next consumer)
        stats["scenarios_judged"] += 1
        stats["fetched_ahead_messages_outliving_their_timeout"] += len(ids)
        stats["deliveries_seen"] += sum(seen.values())
        fps.add(f"backlog_timeout/{case['n']}/{int(bool(case.get('pause')))}")
        twice = sorted(i for i, n_ in seen.items() if n_ > 1)
        if twice:
            out.append(V("held_twice", "redis", "fetched-ahead/timeout/maintenance/finish" if case.get("pause") else "fetched-ahead/refetched-after-maintenance/finish-rejects-twice", f"{twice} were fetched ahead by a consumer, outlived their 1 s execution timeout in its buffer, were returned by another client's maintenance, "
                                                                                      f"and after that consumer's finish() two consumers were handed them: {dict(seen)}"))
        for cons, _c in holders:
            await cons.finish()
        await c2.disconnect()
        await c1.disconnect()
        stats["unknown_server_commands"] += rig.unknown_commands()
    finally:
        rig.close()


async def workers_stop(loop, case, inject_step, info):
    """Two workers (separate connections) on one queue with a backlog of short successful jobs; worker 1 gets a stop request
    at loop step `inject_step` (None: never) with a graceful period longer than any job. Every job must succeed exactly once."""
    from repid import Job, Worker
    from rv.wl import World, fire_stop

    kind = case["kind"]
    w = World(loop, kind, converter="basic", seed=case["seed"], latency=None if kind == "mem" else 0.001)
    try:
        await w.open()
        c2 = w.conn if kind == "mem" else w.rig.make_connection("w2")
        if kind != "mem":
            await c2.connect()
        r = w.router()
        # two queues per worker: a message of one queue regularly arrives while the other queue's executions occupy every
        # slot (each consumer has its own prefetch window), which is when the pause / wait / un-pause hand-over is taken
        w.scripted_actor(r, "acta", queue="qa")
        w.scripted_actor(r, "actb", queue="qb")
        for q in ("qa", "qb"):
            await w.conn.message_broker.queue_declare(q)
        for i in range(case["n"]):
            await Job("acta" if i % 2 == 0 else "actb", queue="qa" if i % 2 == 0 else "qb", id_=f"j{i:03d}", args={"script": {"do": "ok", "d": case["d"] * (1 + (i % 3))}}, use_args_bucketer=False,
                      store_result=False, _connection=w.conn).enqueue()
        sig = __import__("signal").SIGUSR1
        w1 = Worker(routers=[r], tasks_limit=case["tl"], graceful_shutdown_time=10.0, handle_signals=[sig], _connection=w.conn)
        w2 = Worker(routers=[r], tasks_limit=case["tl"], graceful_shutdown_time=10.0, handle_signals=[], _connection=c2)
        start_step = loop.steps
        fired = {}

        def hook(step):
            if inject_step is not None and step == start_step + inject_step and not fired:
                fired["t"] = loop.time()
                fired["ok"] = fire_stop(loop)

        loop.step_hook = hook
        t1 = loop.create_task(w1.run())
        await asyncio.sleep(0)
        t2 = loop.create_task(w2.run())
        t_end = loop.time() + 30

        def done_ids():
            return {e["id"] for e in w.log.events if e.get("k") == "call" and e.get("op") == "ack" and e.get("depth") == 0}

        while loop.time() < t_end and len(done_ids()) < case["n"]:
            await asyncio.sleep(0.05)
        loop.step_hook = None
        await asyncio.sleep(0.5)
        info["fired"] = dict(fired)
        info["w1_returned_by_itself"] = t1.done()
        # stop whoever still runs: worker 1's handler if it was not used, then worker 2 by cancelling its consumers gracefully
        if not t1.done():
            fire_stop(loop)
        try:
            await asyncio.wait_for(asyncio.shield(t1), 15)
        except BaseException as exc:  # noqa: BLE001
            info["w1_exc"] = repr(exc)
            t1.cancel()
        t2.cancel()
        try:
            await t2
        except BaseException:  # noqa: BLE001
            pass
        ev = w.log.events
        info["steps"] = [(e["step"] - start_step, e["k"], e.get("op")) for e in ev if e.get("step", 0) > start_step and e.get("k") in ("call", "ret") and e.get("op") in ("pause", "unpause", "consume")
                         and str(e.get("who", "")).startswith("w1")]
        info["ends"] = collections.Counter(e["id"] for e in ev if e.get("k") == "actor_end")
        info["starts"] = collections.Counter(e["id"] for e in ev if e.get("k") == "actor_start")
        info["snapshot"] = w.rig.snapshot()
        info["double_takes"] = list(w.rig.server.double_takes) if kind == "redis" else []
        info["unknown"] = w.rig.unknown_commands()
        if kind != "mem":
            try:
                await asyncio.wait_for(c2.disconnect(), 10)
            except Exception:  # noqa: BLE001
                pass
    finally:
        await w.close()


async def unwind(loop, case, out, stats, fps):
    from repid.message import MessageCategory
    from rv.wl import World, fire_stop

    kind, cleanup = case["kind"], case["cleanup"]
    w = World(loop, kind, converter="basic", seed=case["seed"], latency=None if kind == "mem" else 0.001)
    try:
        await w.open()
        r = w.router()
        w.scripted_actor(r, "act")
        mb = w.conn.message_broker
        await mb.queue_declare("default")
        await w.job("act", "slow", {"do": "hang_cleanup", "hang": 60.0, "cleanup": cleanup}, retries=1, timeout=timedelta(seconds=120), store_result=False).enqueue()
        worker = w.worker([r], tasks_limit=2, graceful_shutdown_time=0.2, handle_signals=[__import__("signal").SIGUSR1])
        run_task = loop.create_task(worker.run())
        for _ in range(400):
            if w.events("actor_start"):
                break
            await asyncio.sleep(0.01)
        else:
            out.append(V("harness_or_api_error", kind, "unwind", "the job never started"))
            run_task.cancel()
            return
        fire_stop(loop)
        try:
            await asyncio.wait_for(asyncio.shield(run_task), 10.0)
        except BaseException as exc:  # noqa: BLE001
            out.append(V("harness_or_api_error", kind, "unwind", f"run() after the stop request: {exc!r}"))
            run_task.cancel()
            return
        t_ret = loop.time()
        # the next holder
        B = mb.get_consumer("default", None, 1, MessageCategory.NORMAL)
        await B.start()
        held = None
        try:
            held = await asyncio.wait_for(B.consume(), 3.0 if kind == "redis" else 1.0)
        except asyncio.TimeoutError:
            pass
        stats["scenarios_judged"] += 1
        stats["handovers_from_a_slowly_unwinding_execution"] += 1
        fps.add(f"unwind/{kind}/{cleanup}")
        if held is None:
            # (where the message of a force-cancelled execution is right after run() returned is C03's subject)
            stats["unwind_message_not_yet_back"] += 1
            await B.finish()
            return
        stats["deliveries_seen"] += 1
        # ... keeps it while the old execution finishes unwinding, and for a while after
        await asyncio.sleep(cleanup + 1.0)
        C = mb.get_consumer("default", None, 1, MessageCategory.NORMAL)
        await C.start()
        second = None
        try:
            second = await asyncio.wait_for(C.consume(), 2.5 if kind == "redis" else 1.0)
        except asyncio.TimeoutError:
            pass
        if second is not None:
            out.append(V("held_twice", kind, "unwind/handed-out-while-held", f"the worker's grace period ran out while 'slow' was executing (its actor needs {cleanup}s to unwind); run() returned at +{t_ret:.3f}s, consumer B was handed "
                                                                            f"{held[0].id_} and still holds it, yet consumer C was handed {second[0].id_} at +{loop.time():.3f}s"))
            await mb.ack(second[0])
        await mb.ack(held[0])
        await B.finish()
        await C.finish()
        stats["unknown_server_commands"] += w.rig.unknown_commands()
    finally:
        await w.close()


async def workers(loop, case, out, stats, fps):
    from repid import Job, Worker
    from rv.wl import World, fire_stop

    kind = case["kind"]
    w = World(loop, kind, converter="basic", seed=case["seed"], latency=None if kind == "mem" else 0.001, amqp_opts={"deliver_before_confirm": case["dbc"]} if case.get("dbc") else None)
    try:
        await w.open()
        conns = [w.conn] + [(w.conn if kind == "mem" else w.rig.make_connection(f"w{i + 2}")) for i in range(case["k"] - 1)]
        for c in conns[1:]:
            if kind != "mem":
                await c.connect()
        # (every second scenario: a third of the jobs fail once and are retried without any back-off - the retry goes straight
        # back to the queue all the workers listen on)
        retrying = case["seed"] % 2 == 0
        r = w.router(retry_policy=(lambda retry_number=1: timedelta(0)) if retrying else None)
        w.scripted_actor(r, "act")
        await w.conn.message_broker.queue_declare("default")
        from datetime import datetime as _dt

        rndw = random.Random(case["seed"])
        for i in range(case["n"]):
            kw = {}
            if rndw.random() < 0.4:
                kw["deferred_until"] = _dt.now() + timedelta(seconds=rndw.choice([0.3, 1.0, 1.0, 2.2]))
            script = {"do": "ok", "d": 0.01}
            if retrying and i % 3 == 0:
                script = {"by_attempt": [{"do": "raise", "d": 0.01}, {"do": "ok", "d": 0.01}]}
                kw["retries"] = 1
                stats["jobs_retried_without_backoff"] += 1
            await Job("act", id_=f"j{i:03d}", args={"script": script}, use_args_bucketer=False, store_result=False, _connection=w.conn, **kw).enqueue()
        sig = __import__("signal").SIGUSR1
        ws = [Worker(routers=[r], tasks_limit=case["tl"], graceful_shutdown_time=5.0, handle_signals=[sig] if i == 0 else [], _connection=c) for i, c in enumerate(conns)]
        tasks = [loop.create_task(x.run()) for x in ws]
        t_end = loop.time() + 25
        while loop.time() < t_end and len({e["id"] for e in w.log.events if e.get("k") == "call" and e.get("op") == "ack" and e.get("depth") == 0}) < case["n"]:
            await asyncio.sleep(0.1)
        await asyncio.sleep(1.0)
        fire_stop(loop)
        for t in tasks:
            try:
                await asyncio.wait_for(asyncio.shield(t), 8)
            except BaseException:  # noqa: BLE001
                t.cancel()
        stats["multi_worker_runs"] += 1
        stats["scenarios_judged"] += 1
        fps.add(f"workers/{kind}/{case['k']}/{case['n']}/{case['tl']}")
        starts = collections.Counter((e["id"], e.get("attempt")) for e in w.events("actor_start"))
        stats["deliveries_seen"] += sum(starts.values())
        dt = w.rig.server.double_takes if kind == "redis" else ()
        # every worker has returned: what was acknowledged is held by nobody and waits nowhere
        acked = {e["id"] for e in w.log.events if e.get("k") == "ret" and e.get("op") == "ack" and e.get("depth") == 0}
        snap_end = w.rig.snapshot()
        left = sorted(i for i in acked if snap_end.get(i))
        if left:
            out.append(V("executed_twice", kind, "acknowledged-and-still-held", f"{left[:4]} were executed successfully and acknowledged, yet after all {case['k']} workers returned they are at {[snap_end.get(i) for i in left[:4]]} "
                                                                                  f"(an unsettled delivery comes back as soon as its connection closes)"))
        for (id_, _att), n in starts.items():
            if n > 1:
                explained = any(id_ in str(name) for (_l, name, _t) in dt)
                out.append(V("executed_twice", kind, "read-then-remove-race" if explained else f"workers/k={case['k']}", f"{id_} (successful actor) executed {n} times by {case['k']} workers on one queue"))
                break
        started_ids = {i for i, _a in starts}
        missing = [f"j{i:03d}" for i in range(case["n"]) if f"j{i:03d}" not in started_ids]
        if missing:
            out.append(V("not_executed", kind, f"workers/k={case['k']}", f"{missing[:4]} never executed; state {[w.rig.snapshot().get(m) for m in missing[:4]]}"))
        for c in conns[1:]:
            if kind != "mem":
                try:
                    await asyncio.wait_for(c.disconnect(), 10)
                except Exception:  # noqa: BLE001
                    pass
        stats["unknown_server_commands"] += w.rig.unknown_commands()
    finally:
        await w.close()


def run_case(case):
    from rv.sim import loop as vl

    stats = collections.Counter()
    out, fps, samples = [], set(), []
    if case["type"] == "exhaustive":
        seen_orders = []
        for oi, o in enumerate(case["orders"]):
            if case.get("fin"):
                res = vl.run(lambda loop, o=o: exhaustive(loop, o, out, stats, fps, fin_at=(oi + sum(o)) % 5), max_steps=1_000_000, seed=1)
                if res.exc is not None:
                    out.append(V("harness_or_api_error", "redis", "exhaustive-finish", f"{o}: {type(res.exc).__name__}: {res.exc}"))
                continue
            res = vl.run(lambda loop, o=o: exhaustive(loop, o, out, stats, fps), max_steps=1_000_000, seed=1)
            if res.exc is not None:
                out.append(V("harness_or_api_error", "redis", "exhaustive", f"{o}: {type(res.exc).__name__}: {res.exc}"))
            elif len(seen_orders) < 2 and res.value[1] and len(res.value[1]) > 1:
                seen_orders.append({"server_order": [f"{a}:{b}" for a, b in res.value[0]], "received": res.value[1]})
        if seen_orders:
            samples.append(seen_orders[0])
    elif case["type"] == "workers_stop":
        kind = case["kind"]
        base = {}
        res = vl.run(lambda loop: workers_stop(loop, case, None, base), max_steps=6_000_000, seed=case["seed"])
        if res.exc is not None or "steps" not in base:
            return {"fp": None, "viol": [], "stats": dict(stats), "inconclusive": f"baseline run failed: {res.exc!r}"}
        # injection points: every step inside a pause..un-pause hand-over of worker 1's consume loop (and its neighbours), a
        # few around its consume returns
        pts, prim, open_at, un_at = set(), set(), None, None
        for st, k, op in base["steps"]:
            if op == "pause" and k == "call":
                open_at = st
            if op == "unpause" and k == "call":
                un_at = st
            if op == "unpause" and k == "ret":
                if un_at is not None:
                    prim.update(range(un_at, st + 2))  # the un-pause round trip itself: the new task exists, the loop has not moved on
                if open_at is not None:
                    pts.update(range(max(1, open_at - 1), st + 3))
                open_at = un_at = None
            if op == "consume" and k == "ret":
                pts.update((st, st + 1, st + 2))
        rndp = random.Random(case["seed"] + 5)
        prim_l = sorted(prim) if len(prim) <= 2 * case["points"] else sorted(rndp.sample(sorted(prim), 2 * case["points"]))
        rest = sorted(pts - prim)
        chosen = sorted(set(prim_l) | set(rest if len(rest) <= case["points"] else rndp.sample(rest, case["points"])))
        stats["handover_windows_seen"] += sum(1 for st, k, op in base["steps"] if op == "unpause" and k == "call")
        for runs_i, pt in enumerate([None] + chosen):
            info = base if pt is None else {}
            if pt is not None:
                res = vl.run(lambda loop, pt=pt: workers_stop(loop, case, pt, info), max_steps=6_000_000, seed=case["seed"])
                if res.exc is not None or "ends" not in info:
                    stats["inconclusive_runs"] += 1
                    continue
                if not info["fired"].get("ok"):
                    continue
                stats["stops_while_other_worker_runs"] += 1
            if info.get("unknown"):
                stats["unknown_server_commands"] += info["unknown"]
            stats["scenarios_judged"] += 1
            stats["deliveries_seen"] += sum(info["starts"].values())
            fps.add(f"workers_stop/{kind}/{case['tl']}/{case['n']}/{pt}")
            ctx = "workers/one-stopped" if pt is not None else "workers/undisturbed"
            for id_, n_ in info["ends"].items():
                if n_ > 1:
                    explained = any(id_ in str(name) for (_l, name, _t) in info["double_takes"])
                    out.append(V("executed_twice", kind, "read-then-remove-race" if explained else ctx, f"stop of worker 1 at step +{pt}: {id_} ran to a successful end {n_} times (started {info['starts'][id_]}x) with two workers on the queue"))
                    break
            # (a message the stopped worker leaves marked in flight is C01/C03's finding, not a double delivery: counted only)
            missing = [f"j{i:03d}" for i in range(case["n"]) if not info["ends"].get(f"j{i:03d}")]
            stats["jobs_left_unfinished_by_the_stop"] += len(missing)
            if len(missing) == case["n"]:
                out.append(V("not_executed", kind, ctx, f"stop of worker 1 at step +{pt}: no job at all completed; state {[info['snapshot'].get(m) for m in missing[:4]]}"))
    else:
        fn = {"gated": gated, "mem": mem_offsets, "workers": workers, "relay": relay, "maint": maint, "unwind": unwind, "backlog_timeout": backlog_timeout}[case["type"]]
        args = (out, stats, fps, samples) if case["type"] == "gated" else (out, stats, fps)
        import os
        import time as _time

        old_tz = os.environ.get("TZ")
        if case.get("tz"):
            os.environ["TZ"] = case["tz"]
            _time.tzset()
            stats["timezone_offset_runs"] += 1
        try:
            res = vl.run(lambda loop: fn(loop, case, *args), max_steps=6_000_000, seed=case["seed"])
        finally:
            if case.get("tz"):
                if old_tz is None:
                    os.environ.pop("TZ", None)
                else:
                    os.environ["TZ"] = old_tz
                _time.tzset()
        if res.exc is not None:
            out.append(V("harness_or_api_error", case.get("kind", "mem"), case["type"], f"{type(res.exc).__name__}: {res.exc}"))
    if stats.get("unknown_server_commands"):
        return {"fp": None, "viol": [], "stats": dict(stats), "inconclusive": "fake server saw unknown commands"}
    seen, vv = set(), []
    for v in out:
        if (v["rule"], v["broker"], v["context"]) not in seen:
            seen.add((v["rule"], v["broker"], v["context"]))
            vv.append(v)
    r = {"fp": None, "fps": sorted(fps), "viol": vv[:8], "stats": dict(stats)}
    if samples:
        r["sample"] = samples[0]
    return r

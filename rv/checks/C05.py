"""C05 - delayed messages are never delivered early and never forgotten.

Messages with a due time T are enqueued on each broker at chosen positions of `now` inside the wall-clock second and
with chosen consumer phases, on a virtual clock; the monitor compares every delivery instant with T (never before
T - 1 ms; while a consumer is listening, not later than T + L) and probes category visibility before T.
"""
from __future__ import annotations

import asyncio
import collections
import random
from datetime import datetime, timedelta

LEVEL = "exploration"
L_BOUND = 10.0
RULE = ("grid: due offset {-5s,-1us,+400us,+0.3,+0.9995,+1.0,+1.5,+5s,+1h(jump),+30d} x 12 positions of now inside the second x "
        "consumer phase {before enqueue, 4 offsets after, after T} x via {broker API, Job(deferred_until), Job(deferred_by)} x "
        "broker, plus multi-message queues with non-monotone due times and visibility probes; evaluation = one message's "
        "delivery judged; fingerprint = (broker, offset, phase, consumer mode, via | multi pattern); trivial = none")
ASSUMPTIONS = ["Redis and RabbitMQ are wire-level fakes (RabbitMQ rule R2: per-message TTL expires at the queue head only)",
               "virtual time; bounded latency L = 10 s of virtual time after max(T, consumer start)",
               "early = more than 1 ms before T",
               "the AMQP fake accepts per-message expirations of any size; a real RabbitMQ server is believed to refuse values above 2^32-1 ms (49.7 days) with a channel error, "
               "so what repid does for longer delays on RabbitMQ is judged here only as far as the fake goes (not verifiable offline)"]
EVAL_COUNTER = "deliveries_judged"
REQUIRED = ["deliveries_judged", "due_past", "due_subsecond", "due_seconds", "due_far", "visibility_probes", "multi_scenarios", "peek_scenarios", "peek_returns", "crowd_scenarios", "timezone_offset_runs", "busy_consumer_scenarios", "far_future_probes", "messages_put_back_with_a_new_time", "neighbour_queue_scenarios", "shared_due_instant_scenarios"]
CASE_TIMEOUT = 120

OFFSETS = [-5.0, -0.000001, 0.0004, 0.3, 0.9995, 1.0, 1.5, 5.0, 3600.0, 2592000.0]
PHASES = [0.0, 0.000001, 0.05, 0.1234, 0.25, 0.45, 0.5, 0.6, 0.75, 0.9, 0.999, 0.9999]
CMODES = ["before", "after:0.01", "after:0.2", "after:0.7", "after:1.1", "afterT", "atT", "pollT"]
VIAS = ["api", "job_until", "job_by", "api_rec", "api_requeue"]


def gen_cases(tier, seed):
    rnd = random.Random(seed)
    cases = []
    for kind in ("mem", "redis", "rabbit"):
        combos = [(o, p, c, v) for o in OFFSETS for p in PHASES for c in CMODES for v in VIAS]
        combos = [x for x in combos if not (x[3] == "job_by" and x[0] not in (1.0, 1.5, 5.0, 3600.0))]
        # api_rec: a periodic message (period 1 s) whose stored scheduled time lies further ahead than its period (a retry
        # back-off longer than the period): the stored time counts
        combos = [x for x in combos if not (x[3] == "api_rec" and x[0] < 1.5)]
        # api_requeue: the message is taken by a consumer and put back with its new time (a retry back-off, a reschedule)
        combos = [x for x in combos if not (x[3] == "api_requeue" and x[0] > 100)]
        n = {"quick": 170, "thorough": len(combos)}[tier]
        if n < len(combos):
            # stratified: every offset and every phase present
            picked = []
            rnd.shuffle(combos)
            for o in OFFSETS:
                picked += [x for x in combos if x[0] == o][: max(3, n // len(OFFSETS))]
            combos = picked
        # group several single-message scenarios per case to amortise start-up
        for i in range(0, len(combos), 6):
            cases.append({"type": "single", "kind": kind, "items": combos[i:i + 6], "seed": rnd.randrange(10**6),
                          "latency": None if kind == "mem" else rnd.choice([None, 0.003])})
        # put back with a sub-second back-off from every position inside the clock second
        sub = [(o, p, c, "api_requeue") for o in (0.3, 0.6) for p in PHASES for c in (("before", "after:0.01") if tier == "quick" else ("before", "after:0.01", "after:0.2", "pollT"))]
        for i in range(0, len(sub), 6):
            cases.append({"type": "single", "kind": kind, "items": sub[i:i + 6], "seed": rnd.randrange(10**6), "latency": None if kind == "mem" else [None, 0.003][(i // 6) % 2]})
        nm = {"quick": 8, "thorough": 80}[tier]
        for i in range(nm):
            k = rnd.randint(2, 6)
            dues = [rnd.choice([0.2, 0.5, 1.0, 1.3, 2.0, 3.7, 6.0, 30.0]) for _ in range(k)]
            cases.append({"type": "multi", "kind": kind, "dues": dues, "phase": rnd.choice(PHASES), "seed": rnd.randrange(10**6),
                          "running_consumer": rnd.random() < 0.6, "latency": None if kind == "mem" else rnd.choice([None, 0.003])})
        for i in range({"quick": 4, "thorough": 24}[tier]):
            cases.append({"type": "vis", "kind": kind, "offset": rnd.choice([25.0, 60.0, 3600.0, 2592000.0]), "phase": rnd.choice(PHASES), "seed": rnd.randrange(10**6)})
        # a due message of the consumer's topic behind k due messages of a topic nobody consumes (fetch windows, offsets)
        if kind != "rabbit":  # (there a foreign message in front blocks by design: C11's finding)
            for k in ([8, 9, 10, 11, 19, 20, 21, 29, 30] if tier == "thorough" else [9, 10, 19, 20]):
                cases.append({"type": "crowd", "kind": kind, "k": k, "own": rnd.choice([1, 3]), "phase": rnd.choice(PHASES), "seed": rnd.randrange(10**6)})
        # a consumer that never finds the queue empty (a producer keeps a small backlog): a message that became due is still
        # delivered after a bounded number of further deliveries
        for backlog in (1, 3):
            cases.append({"type": "busy", "kind": kind, "backlog": backlog, "seed": rnd.randrange(10**6)})
        # two delayed messages of different topics share one due instant; a consumer that serves only one of the topics takes its
        # own, a consumer of the other topic comes later: its message is still there
        if kind != "rabbit":  # (there a foreign message in front blocks by design: C11's finding)
            for order in ("own_first", "other_first"):
                cases.append({"type": "shared_due", "kind": kind, "order": order, "past": order == "own_first", "seed": rnd.randrange(10**6)})
        # two queues in one process: a delayed message of a quiet queue becomes due while its consumer waits idle and the
        # consumer of the other queue is kept busy by steady traffic
        for due in ((1.3, 2.6) if tier == "quick" else (0.4, 1.3, 2.6, 5.05)):
            cases.append({"type": "neighbour", "kind": kind, "due": due, "seed": rnd.randrange(10**6)})
        # due times months and years ahead: still not deliverable weeks later, deliverable when the day comes
        for days in ((60, 400) if tier == "quick" else (45, 60, 400, 3650)):
            cases.append({"type": "veryfar", "kind": kind, "days": days, "via": rnd.choice(VIAS[:2]), "seed": rnd.randrange(10**6), "latency": None if kind == "mem" else 0.003})
        # the same clock arithmetic on a machine whose local time is not UTC (due times are naive local datetimes)
        for tz in ("AAA-5", "BBB5"):
            cases.append({"type": "tz", "kind": kind, "tz": tz, "seed": rnd.randrange(10**6)})
        # a delayed message is looked at through the DELAYED category and given back (reject / finish), while a normal
        # consumer keeps listening: still never early, still delivered within the bound after T
        holds = ["short", "past_earlier", "past_T"]
        for i in range({"quick": 6, "thorough": 36}[tier]):
            cases.append({"type": "peek", "kind": kind, "T": rnd.choice([6.0, 8.0, 12.5]), "hold": holds[i % 3], "back": ["reject", "finish"][(i // 3) % 2],
                          "earlier": i % 2 == 0 or holds[i % 3] == "past_earlier", "retry_like": rnd.random() < 0.5, "phase": rnd.choice(PHASES), "seed": rnd.randrange(10**6)})
    return cases


def V(rule, kind, ctx, detail):
    return {"rule": rule, "broker": kind, "context": ctx, "detail": detail}


EPOCH = datetime(2040, 1, 1)


def vt(dt):
    return (dt - EPOCH).total_seconds()


async def veryfar(loop, case, out, stats, fps):
    """A message due `days` ahead, looked at after 1 day, after 49.8 days (beyond 2^32 ms) and one day before T through a
    fresh NORMAL consumer each time: never delivered; delivered once T has come."""
    from repid.data._parameters import DelayProperties
    from repid.message import MessageCategory
    from rv.rigs import Rig, key_of

    kind, days = case["kind"], case["days"]
    rig = Rig(kind, loop, latency=case["latency"], seed=case["seed"])
    try:
        conn = rig.make_connection("p1")
        await conn.connect()
        mb = conn.message_broker
        await mb.queue_declare("q")
        loop.jump(1.37)
        now = datetime.now()
        T = now + timedelta(days=days, seconds=0.25)
        if case["via"] == "api":
            await mb.enqueue(key_of(conn, "m1", "t", "q"), "p", mb.PARAMETERS_CLASS(delay=DelayProperties(next_execution_time=T)))
        else:
            from repid import Job

            await Job("t", queue="q", id_="m1", deferred_until=T, _connection=conn).enqueue()
        tT, t0 = vt(T), vt(now)
        stops = sorted({t0 + 86400.0, t0 + 49.8 * 86400.0, tT - 86400.0})
        ctx = f"veryfar/{case['via']}"
        for ts in [x for x in stops if x < tT - 3600] + [tT + 1.0]:
            await asyncio.sleep(0.5)
            await rig.quiesce_wire()
            loop.jump_to(ts)
            cons = mb.get_consumer("q", None, None, MessageCategory.NORMAL)
            await cons.start()
            got = None
            try:
                key, _payload, _params = await asyncio.wait_for(cons.consume(), L_BOUND if ts > tT else 3.0)
                got = loop.time()
                await mb.ack(key)
            except asyncio.TimeoutError:
                pass
            await cons.finish()
            stats["deliveries_judged"] += 1
            stats["far_future_probes"] += 1
            if ts < tT:
                if got is not None:
                    out.append(V("early", kind, ctx, f"due in {days} days: delivered to a normal consumer after {(got - t0) / 86400:.2f} days, {(tT - got) / 86400:.2f} days early"))
                    break
                if rig.snapshot().get("m1") != ["delayed"]:
                    out.append(V("invisible_as_delayed", kind, ctx, f"due in {days} days: after {(ts - t0) / 86400:.2f} days the message is at {rig.snapshot().get('m1')}"))
                    break
            elif got is None:
                out.append(V("late", kind, ctx, f"due in {days} days: not delivered within {L_BOUND}s after T; state {rig.snapshot().get('m1')}"))
        stats["due_far"] += 1
        fps.add(f"{kind}/veryfar/{days}/{case['via']}")
        await conn.disconnect()
        stats["unknown_server_commands"] += rig.unknown_commands()
    finally:
        rig.close()


async def single(loop, kind, item, lat, seed, out, stats, fps, samples):
    from repid.data._parameters import DelayProperties
    from repid.message import MessageCategory
    from rv.rigs import Rig, key_of

    off, phase, cmode, via = item
    rig = Rig(kind, loop, latency=lat, seed=seed)
    try:
        conn = rig.make_connection("p1")
        await conn.connect()
        mb = conn.message_broker
        await mb.queue_declare("q")
        # position `now` inside the second
        frac = loop.time() % 1.0
        loop.jump((phase - frac) % 1.0 + 1.0)
        taken = None
        if via == "api_requeue":
            await mb.enqueue(key_of(conn, "m1", "t", "q"), "p0", mb.PARAMETERS_CLASS())
            c0 = mb.get_consumer("q", None, None, MessageCategory.NORMAL)
            await c0.start()
            taken = await asyncio.wait_for(c0.consume(), 5.0)
            frac = loop.time() % 1.0
            await asyncio.sleep((phase - frac) % 1.0)
        cons = mb.get_consumer("q", None, None, MessageCategory.NORMAL)
        t_cons = None
        if cmode == "before":
            await cons.start()
            t_cons = loop.time()
            await asyncio.sleep(0.137)
            frac = loop.time() % 1.0
            await asyncio.sleep((phase - frac) % 1.0)
        now = datetime.now()
        T = now + timedelta(seconds=off)
        if via == "api":
            P = mb.PARAMETERS_CLASS
            await mb.enqueue(key_of(conn, "m1", "t", "q"), "p", P(delay=DelayProperties(next_execution_time=T)))
        elif via == "api_requeue":
            P = mb.PARAMETERS_CLASS
            stats["messages_put_back_with_a_new_time"] += 1
            await mb.requeue(taken[0], "p", P(delay=DelayProperties(next_execution_time=T), retries=P().retries.__class__(max_amount=3, already_tried=1)))
            await c0.finish()
            if T <= now:
                T = now
        elif via == "api_rec":
            P = mb.PARAMETERS_CLASS
            stats["periodic_messages_scheduled_beyond_their_period"] += 1
            await mb.enqueue(key_of(conn, "m1", "t", "q"), "p", P(delay=DelayProperties(defer_by=timedelta(seconds=1), next_execution_time=T), retries=P().retries.__class__(max_amount=3, already_tried=1)))
        elif via == "job_until":
            from repid import Job

            await Job("t", queue="q", id_="m1", deferred_until=T, _connection=conn).enqueue()
            if T <= now:
                T = now  # not deferred: immediately deliverable
        else:
            from repid import Job

            j = Job("t", queue="q", id_="m1", deferred_by=timedelta(seconds=off), _connection=conn)
            T = j.timestamp + timedelta(seconds=off)
            await j.enqueue()
        tT = vt(T)
        if cmode.startswith("after:"):
            await asyncio.sleep(float(cmode.split(":")[1]))
        if off >= 3600 and off < 100000:
            await asyncio.sleep(1.0)
            await rig.quiesce_wire()
            loop.jump_to(tT - 2.0)
        if cmode == "atT" and 0 < off < 100000:
            # the consumer is switched on exactly at T (every "is it due yet" comparison at its boundary)
            await asyncio.sleep(0.001)
            await rig.quiesce_wire()
            loop.jump_to(tT)
        if cmode == "pollT" and 0 < off < 100000 and t_cons is None:
            # a running consumer whose periodic look at the delayed store falls exactly on T
            await cons.start()
            t_cons = loop.time()
            probe = loop.create_task(cons.consume())
            await asyncio.sleep(0.0005)
            await rig.quiesce_wire()
            loop.jump_to(tT - 1.0005 if tT - 1.0005 > loop.time() else loop.time())
            try:
                key, payload, params = await asyncio.wait_for(probe, max(0.01, (max(tT, t_cons) + L_BOUND + 3.0) - loop.time()))
                pre_delivered = loop.time()
                await mb.ack(key)
            except asyncio.TimeoutError:
                pre_delivered = None
        else:
            pre_delivered = "n/a"
        if cmode == "afterT":
            if off > 100000:
                await asyncio.sleep(1.0)
            else:
                await asyncio.sleep(max(0.0, tT - loop.time()) + 1.0)
        if t_cons is None:
            await cons.start()
            t_cons = loop.time()
        horizon = (max(tT, t_cons) + L_BOUND + 3.0) if off < 100000 else loop.time() + 15.0
        delivered = None
        if pre_delivered != "n/a":
            delivered = pre_delivered
        else:
            try:
                key, payload, params = await asyncio.wait_for(cons.consume(), max(0.01, horizon - loop.time()))
                delivered = loop.time()
                await mb.ack(key)
            except asyncio.TimeoutError:
                pass
        ctx = f"{via}"
        stats["deliveries_judged"] += 1
        stats["due_past" if off <= 0 else "due_subsecond" if off < 1 else "due_seconds" if off < 100 else "due_far"] += 1
        fps.add(f"{kind}/{off}/{phase}/{cmode}/{via}")
        if off > 100000:
            if delivered is not None:
                out.append(V("early", kind, ctx, f"due in 30 days, delivered after {delivered - vt(now):.3f}s"))
            elif rig.snapshot().get("m1") != ["delayed"]:
                out.append(V("invisible_as_delayed", kind, ctx, f"due in 30 days: message is at {rig.snapshot().get('m1')}"))
        elif delivered is None:
            out.append(V("late", kind, ctx, f"offset {off}s phase {phase} consumer {cmode}: not delivered within {L_BOUND}s after max(T, consumer start); state {rig.snapshot().get('m1')}"))
        else:
            early = tT - delivered
            if early > 0.001:
                out.append(V("early", kind, ctx, f"offset {off}s phase {phase} consumer {cmode} via {via}: delivered {early * 1000:.3f} ms before T (T={T.time()}, delivered at +{delivered:.6f})"))
            late = delivered - max(tT, t_cons)
            if late > L_BOUND:
                out.append(V("late", kind, ctx, f"offset {off}s: delivered {late:.3f}s after max(T, consumer start)"))
            stats["max_lateness_ms"] = max(stats.get("max_lateness_ms", 0), int(late * 1000))
            if len(samples) < 3:
                samples.append({"broker": kind, "offset_s": off, "phase": phase, "consumer": cmode, "via": via, "delivered_minus_T_s": round(delivered - tT, 6)})
        await cons.finish()
        await conn.disconnect()
        stats["unknown_server_commands"] += rig.unknown_commands()
    finally:
        rig.close()


async def multi(loop, case, out, stats, fps, samples):
    from repid.data._parameters import DelayProperties
    from repid.message import MessageCategory
    from rv.rigs import Rig, key_of

    kind = case["kind"]
    rig = Rig(kind, loop, latency=case["latency"], seed=case["seed"])
    try:
        conn = rig.make_connection("p1")
        await conn.connect()
        mb = conn.message_broker
        await mb.queue_declare("q")
        loop.jump((case["phase"] - loop.time() % 1.0) % 1.0 + 1.0)
        cons = mb.get_consumer("q", None, None, MessageCategory.NORMAL)
        if case["running_consumer"]:
            await cons.start()
        P = mb.PARAMETERS_CLASS
        due = {}
        for i, d in enumerate(case["dues"]):
            T = datetime.now() + timedelta(seconds=d)
            await mb.enqueue(key_of(conn, f"m{i}", "t", "q"), "p", P(delay=DelayProperties(next_execution_time=T)))
            due[f"m{i}"] = vt(T)
            await asyncio.sleep(0.01)
        if not case["running_consumer"]:
            await cons.start()
        t_cons = loop.time()
        horizon = max(due.values()) + L_BOUND + 3
        got = {}
        while len(got) < len(due) and loop.time() < horizon:
            try:
                key, _, _ = await asyncio.wait_for(cons.consume(), max(0.01, horizon - loop.time()))
            except asyncio.TimeoutError:
                break
            got[key.id_] = loop.time()
            await mb.ack(key)
        stats["multi_scenarios"] += 1
        pattern = "nonmono" if any(case["dues"][i] > case["dues"][i + 1] for i in range(len(case["dues"]) - 1)) else "mono"
        fps.add(f"{kind}/multi/{case['dues']}/{case['phase']}/{case['running_consumer']}")
        for id_, tT in due.items():
            stats["deliveries_judged"] += 1
            stats["due_seconds"] += 1
            if id_ not in got:
                out.append(V("late", kind, f"multi/{pattern}", f"dues {case['dues']}: {id_} (due +{tT:.3f}) not delivered by +{horizon:.1f}; state {rig.snapshot().get(id_)}"))
                continue
            if tT - got[id_] > 0.001:
                out.append(V("early", kind, f"multi/{pattern}", f"{id_} delivered {(tT - got[id_]) * 1000:.3f} ms early"))
            if got[id_] - max(tT, t_cons) > L_BOUND:
                out.append(V("late", kind, f"multi/{pattern}", f"dues {case['dues']}: {id_} (due +{tT:.3f}) delivered at +{got[id_]:.3f}, {got[id_] - tT:.3f}s late"))
        if len(samples) < 1:
            samples.append({"broker": kind, "dues_s": case["dues"], "delivered_minus_due_s": {k: round(got[k] - due[k], 4) for k in got}})
        await cons.finish()
        await conn.disconnect()
        stats["unknown_server_commands"] += rig.unknown_commands()
    finally:
        rig.close()


async def busy(loop, case, out, stats, fps):
    from repid.data._parameters import DelayProperties
    from repid.message import MessageCategory
    from rv.rigs import Rig, key_of

    kind = case["kind"]
    rig = Rig(kind, loop, latency=None, seed=case["seed"])
    try:
        conn = rig.make_connection("p1")
        await conn.connect()
        mb = conn.message_broker
        await mb.queue_declare("q")
        P = mb.PARAMETERS_CLASS
        T = datetime.now() + timedelta(seconds=1.5)
        await mb.enqueue(key_of(conn, "due", "t", "q"), "p", P(delay=DelayProperties(next_execution_time=T)))
        n = 0
        for _ in range(case["backlog"]):
            await mb.enqueue(key_of(conn, f"r{n:04d}", "t", "q"), "p", P())
            n += 1
        cons = mb.get_consumer("q", ["t"], None, MessageCategory.NORMAL)
        await cons.start()
        got_at = None
        early = False
        deliveries_after_T = 0
        limit = 60 + case["backlog"]
        t_end = loop.time() + 40.0
        while loop.time() < t_end and deliveries_after_T < limit:
            try:
                key, _, _ = await asyncio.wait_for(cons.consume(), 5.0)
            except asyncio.TimeoutError:
                break
            now = datetime.now()
            if key.id_ == "due":
                got_at = now
                early = now < T - timedelta(milliseconds=1)
                await mb.ack(key)
                break
            if now >= T:
                deliveries_after_T += 1
            await mb.ack(key)
            await mb.enqueue(key_of(conn, f"r{n:04d}", "t", "q"), "p", P())  # keep the backlog where it was
            n += 1
            await asyncio.sleep(0.05)
        await cons.finish()
        stats["busy_consumer_scenarios"] += 1
        stats["deliveries_judged"] += 1
        fps.add(f"{kind}/busy/{case['backlog']}")
        if early:
            out.append(V("early", kind, "busy-consumer", f"delivered at {got_at}, due {T}"))
        elif got_at is None:
            out.append(V("late", kind, "busy-consumer", f"due message not delivered although the consumer was handed {deliveries_after_T} other messages after T (backlog kept at {case['backlog']}); state {rig.snapshot().get('due')}"))
        await conn.disconnect()
        stats["unknown_server_commands"] += rig.unknown_commands()
    finally:
        rig.close()


async def shared_due(loop, case, out, stats, fps):
    from repid.data._parameters import DelayProperties
    from repid.message import MessageCategory
    from rv.rigs import Rig, key_of

    kind = case["kind"]
    rig = Rig(kind, loop, latency=None, seed=case["seed"])
    try:
        conn = rig.make_connection("p1")
        await conn.connect()
        mb = conn.message_broker
        await mb.queue_declare("q")
        P = mb.PARAMETERS_CLASS
        loop.jump(1.37)
        T = datetime.now() + timedelta(seconds=-2.0 if case["past"] else 1.25)
        names = ["own", "other"] if case["order"] == "own_first" else ["other", "own"]
        for n_ in names:
            # (a retry / a rescheduled run: the stored scheduled time counts even when it is already over)
            await mb.enqueue(key_of(conn, f"m-{n_}", f"t-{n_}", "q"), "p", P(delay=DelayProperties(next_execution_time=T), retries=P().retries.__class__(max_amount=3, already_tried=1)))
        A = mb.get_consumer("q", ["t-own"], None, MessageCategory.NORMAL)
        await A.start()
        got = None
        try:
            key, _, _ = await asyncio.wait_for(A.consume(), L_BOUND + 3.0)
            got = key.id_
            await mb.ack(key)
        except asyncio.TimeoutError:
            pass
        await asyncio.sleep(1.5)  # A keeps polling for a while, finds nothing of its own
        await A.finish()
        B = mb.get_consumer("q", ["t-other"], None, MessageCategory.NORMAL)
        await B.start()
        got2 = None
        try:
            key, _, _ = await asyncio.wait_for(B.consume(), L_BOUND)
            got2 = key.id_
            await mb.ack(key)
        except asyncio.TimeoutError:
            pass
        await B.finish()
        stats["shared_due_instant_scenarios"] += 1
        stats["deliveries_judged"] += 2
        fps.add(f"{kind}/shared_due/{case['order']}/{int(case['past'])}")
        ctx = "two-topics-one-due-instant"
        if got != "m-own":
            out.append(V("late", kind, ctx + "/own", f"consumer of topic t-own got {got!r} within {L_BOUND}s after the shared due instant"))
        if got2 != "m-other":
            out.append(V("late", kind, ctx, f"two delayed messages (topics t-own, t-other) due at the same instant {T}; after a consumer of t-own alone had taken its message, a consumer of t-other got {got2!r} in {L_BOUND}s; "
                                             f"state of m-other: {rig.snapshot().get('m-other')}"))
        await conn.disconnect()
        stats["unknown_server_commands"] += rig.unknown_commands()
    finally:
        rig.close()


async def neighbour(loop, case, out, stats, fps):
    from repid.data._parameters import DelayProperties
    from repid.message import MessageCategory
    from rv.rigs import Rig, key_of

    kind = case["kind"]
    rig = Rig(kind, loop, latency=None, seed=case["seed"])
    try:
        conn = rig.make_connection("p1")
        await conn.connect()
        mb = conn.message_broker
        for q in ("quiet", "busy"):
            await mb.queue_declare(q)
        P = mb.PARAMETERS_CLASS
        quiet = mb.get_consumer("quiet", None, None, MessageCategory.NORMAL)
        busy_c = mb.get_consumer("busy", None, None, MessageCategory.NORMAL)
        await quiet.start()
        await busy_c.start()
        stop = asyncio.Event()

        async def traffic():
            n = 0
            while not stop.is_set():
                await mb.enqueue(key_of(conn, f"r{n:04d}", "t", "busy"), "p", P())
                n += 1
                try:
                    key, _, _ = await asyncio.wait_for(busy_c.consume(), 5.0)
                    await mb.ack(key)
                except asyncio.TimeoutError:
                    pass
                await asyncio.sleep(0.03)
            return n

        tr = loop.create_task(traffic())
        waiter = loop.create_task(quiet.consume())  # idle inside consume() before anything is enqueued
        await asyncio.sleep(0.35)
        T = datetime.now() + timedelta(seconds=case["due"])
        await mb.enqueue(key_of(conn, "due", "t", "quiet"), "p", P(delay=DelayProperties(next_execution_time=T)))
        got_at = None
        try:
            key, _, _ = await asyncio.wait_for(waiter, case["due"] + L_BOUND + 3.0)
            got_at = datetime.now()
            await mb.ack(key)
        except asyncio.TimeoutError:
            pass
        stop.set()
        n_busy = await tr
        await quiet.finish()
        await busy_c.finish()
        stats["neighbour_queue_scenarios"] += 1
        stats["deliveries_judged"] += 1
        fps.add(f"{kind}/neighbour/{case['due']}")
        if got_at is None:
            out.append(V("late", kind, "idle-consumer-next-to-a-busy-queue", f"a message of queue 'quiet' due in {case['due']}s was not delivered to its waiting consumer within {L_BOUND}s after T, while the consumer of queue 'busy' "
                                                                             f"(same broker object) handled {n_busy} messages; state {rig.snapshot().get('due')}"))
        elif got_at < T - timedelta(milliseconds=1):
            out.append(V("early", kind, "idle-consumer-next-to-a-busy-queue", f"delivered at {got_at}, due {T}"))
        elif (got_at - T).total_seconds() > L_BOUND:
            out.append(V("late", kind, "idle-consumer-next-to-a-busy-queue", f"delivered {(got_at - T).total_seconds():.3f}s after T"))
        await conn.disconnect()
        stats["unknown_server_commands"] += rig.unknown_commands()
    finally:
        rig.close()


async def tz_smoke(loop, case, out, stats, fps):
    """Public API only, no arithmetic on the harness epoch: jobs deferred by 2 s and 3.5 s (deferred_until / deferred_by)
    run not before their time and within the bound, whatever the local time zone is."""
    from repid import Job, Router, Worker
    from repid.converter import BasicConverter
    from repid.router import RouterDefaults
    from rv.rigs import Rig

    kind = case["kind"]
    rig = Rig(kind, loop, latency=None, seed=case["seed"])
    try:
        conn = rig.make_connection("p1")
        await conn.connect()
        await conn.message_broker.queue_declare("default")
        r = Router(defaults=RouterDefaults(converter=BasicConverter))
        ran = {}

        async def tick(name: str):
            ran.setdefault(name, datetime.now())

        r.actor(name="tick")(tick)
        t0 = datetime.now()
        due = {"u": t0 + timedelta(seconds=2), "b": None}
        await Job("tick", id_="u", args={"name": "u"}, deferred_until=due["u"], store_result=False, use_args_bucketer=False, _connection=conn).enqueue()
        jb = Job("tick", id_="b", args={"name": "b"}, deferred_by=timedelta(seconds=3.5), store_result=False, use_args_bucketer=False, _connection=conn)
        await jb.enqueue()
        due["b"] = jb.timestamp + timedelta(seconds=3.5)
        w = Worker(routers=[r], messages_limit=2, handle_signals=[], _connection=conn)
        try:
            await asyncio.wait_for(w.run(), 3.5 + L_BOUND + 3)
        except asyncio.TimeoutError:
            pass
        stats["timezone_offset_runs"] += 1
        fps.add(f"{kind}/tz/{case['tz']}")
        for name, T in due.items():
            stats["deliveries_judged"] += 1
            if name not in ran:
                out.append(V("late", kind, "timezone-offset", f"TZ={case['tz']}: job {name} due at {T} did not run within {L_BOUND + 3:.0f}s; state {rig.snapshot().get(name)}"))
            elif ran[name] < T - timedelta(milliseconds=1):
                out.append(V("early", kind, "timezone-offset", f"TZ={case['tz']}: job {name} due at {T} ran at {ran[name]}"))
            elif ran[name] > T + timedelta(seconds=L_BOUND):
                out.append(V("late", kind, "timezone-offset", f"TZ={case['tz']}: job {name} due at {T} ran at {ran[name]}"))
        await conn.disconnect()
        stats["unknown_server_commands"] += rig.unknown_commands()
    finally:
        rig.close()


async def crowd(loop, case, out, stats, fps):
    from repid.data._parameters import DelayProperties
    from repid.message import MessageCategory
    from rv.rigs import Rig, key_of

    kind = case["kind"]
    rig = Rig(kind, loop, latency=None, seed=case["seed"])
    try:
        conn = rig.make_connection("p1")
        await conn.connect()
        mb = conn.message_broker
        await mb.queue_declare("q")
        loop.jump((case["phase"] - loop.time() % 1.0) % 1.0 + 1.0)
        P = mb.PARAMETERS_CLASS
        T = datetime.now() + timedelta(seconds=2.0)
        # same due time for all: the broker's own order decides (score, then name): the foreign ones sort first
        for i in range(case["k"]):
            await mb.enqueue(key_of(conn, f"f{i:02d}", "a_foreign", "q"), "p", P(delay=DelayProperties(next_execution_time=T)))
        own = [f"o{i}" for i in range(case["own"])]
        for id_ in own:
            await mb.enqueue(key_of(conn, id_, "t_own", "q"), "p", P(delay=DelayProperties(next_execution_time=T)))
        cons = mb.get_consumer("q", ["t_own"], None, MessageCategory.NORMAL)
        await cons.start()
        got = {}
        horizon = vt(T) + L_BOUND + 2
        while len(got) < len(own) and loop.time() < horizon:
            try:
                key, _, _ = await asyncio.wait_for(cons.consume(), max(0.01, horizon - loop.time()))
            except asyncio.TimeoutError:
                break
            got[key.id_] = loop.time()
            await mb.ack(key)
        await cons.finish()
        stats["crowd_scenarios"] += 1
        fps.add(f"{kind}/crowd/{case['k']}/{case['own']}/{case['phase']}")
        for id_ in own:
            stats["deliveries_judged"] += 1
            if id_ not in got:
                out.append(V("late", kind, "crowd", f"{id_} (topic of the consumer, due +2 s) behind {case['k']} due messages of another topic was not delivered within {L_BOUND + 2:.0f}s after T; state {rig.snapshot().get(id_)}"))
            elif vt(T) - got[id_] > 0.001:
                out.append(V("early", kind, "crowd", f"{id_} delivered {(vt(T) - got[id_]) * 1000:.3f} ms early"))
        for id_ in got:
            if id_ not in own:
                out.append(V("visible_as_normal_before_due", kind, "crowd/foreign", f"{id_} has a topic the consumer did not ask for"))
        await conn.disconnect()
        stats["unknown_server_commands"] += rig.unknown_commands()
    finally:
        rig.close()


async def peek(loop, case, out, stats, fps):
    from repid.data._parameters import DelayProperties, RetriesProperties
    from repid.message import MessageCategory
    from rv.rigs import Rig, key_of

    kind = case["kind"]
    rig = Rig(kind, loop, latency=None, seed=case["seed"])
    try:
        conn = rig.make_connection("p1")
        await conn.connect()
        mb = conn.message_broker
        await mb.queue_declare("q")
        loop.jump((case["phase"] - loop.time() % 1.0) % 1.0 + 1.0)
        P = mb.PARAMETERS_CLASS
        t0 = loop.time()
        T = datetime.now() + timedelta(seconds=case["T"])
        extra = {"retries": RetriesProperties(max_amount=3, already_tried=1)} if case["retry_like"] else {}
        await mb.enqueue(key_of(conn, "m1", "t", "q"), "p", P(delay=DelayProperties(next_execution_time=T), **extra))
        due = {"m1": vt(T)}
        if case["earlier"]:
            E = datetime.now() + timedelta(seconds=case["T"] / 3)
            await mb.enqueue(key_of(conn, "e1", "t", "q"), "p", P(delay=DelayProperties(next_execution_time=E)))
            due["e1"] = vt(E)
        got = {}
        normal = mb.get_consumer("q", None, None, MessageCategory.NORMAL)
        await normal.start()

        async def listen():
            while True:
                key, _, _ = await normal.consume()
                got.setdefault(key.id_, loop.time())
                await mb.ack(key)

        listener = loop.create_task(listen())
        await asyncio.sleep(0.3)
        dc = mb.get_consumer("q", ["t"] if kind != "rabbit" else None, None, MessageCategory.DELAYED)
        await dc.start()
        held, others = None, []
        for _ in range(3):
            try:
                key, _, _ = await asyncio.wait_for(dc.consume(), 2.1)
            except asyncio.TimeoutError:
                break
            if key.id_ == "m1":
                held = key
                break
            others.append(key)
        for key in others:
            await mb.reject(key)  # the earlier one goes back at once
        fps.add(f"{kind}/peek/{case['T']}/{case['hold']}/{case['back']}/{case['earlier']}/{case['retry_like']}")
        stats["peek_scenarios"] += 1
        if held is None:
            if "m1" not in got:
                out.append(V("invisible_as_delayed", kind, "DELAYED/peek", f"due in {case['T']}s: a DELAYED consumer did not receive it within 6 s; state {rig.snapshot().get('m1')}"))
        else:
            until = {"short": t0 + 1.5, "past_earlier": t0 + case["T"] / 3 + 1.6, "past_T": t0 + case["T"] + 1.2}[case["hold"]]
            await asyncio.sleep(max(0.05, until - loop.time()))
            t_back = loop.time()
            # only the in-memory consumer's finish() returns what it handed out; elsewhere the client gives it back
            if case["back"] == "reject" or kind != "mem":
                await mb.reject(held)
            await dc.finish()
            stats["peek_returns"] += 1
            horizon = max(due["m1"], t_back) + L_BOUND + 2
            while loop.time() < horizon and len(got) < len(due):
                await asyncio.sleep(0.25)
            for id_, tT in due.items():
                stats["deliveries_judged"] += 1
                if id_ not in got:
                    out.append(V("late", kind, f"peek/{case['hold']}/{case['back']}", f"{id_} (due +{tT - t0:.3f}s, given back by the DELAYED consumer at +{t_back - t0:.3f}s) not delivered to the listening consumer by +{horizon - t0:.1f}s; state {rig.snapshot().get(id_)}"))
                elif tT - got[id_] > 0.001:
                    out.append(V("early", kind, f"peek/{case['hold']}", f"{id_} delivered {(tT - got[id_]) * 1000:.3f} ms early"))
                elif got[id_] - max(tT, t_back) > L_BOUND:  # (the DELAYED consumer may have re-taken the earlier one into its prefetch buffer until it finished)
                    out.append(V("late", kind, f"peek/{case['hold']}/{case['back']}", f"{id_} delivered {got[id_] - max(tT, t_back):.3f}s after it was due and back"))
        listener.cancel()
        try:
            await listener
        except BaseException:  # noqa: BLE001
            pass
        await normal.finish()
        if held is None:
            await dc.finish()
        await conn.disconnect()
        stats["unknown_server_commands"] += rig.unknown_commands()
    finally:
        rig.close()


async def vis(loop, case, out, stats, fps):
    """Before T the message is returned by a DELAYED-category consumer and by no NORMAL or DEAD one."""
    from repid.data._parameters import DelayProperties
    from repid.message import MessageCategory
    from rv.rigs import Rig, key_of

    kind = case["kind"]
    rig = Rig(kind, loop, latency=None, seed=case["seed"])
    try:
        conn = rig.make_connection("p1")
        await conn.connect()
        mb = conn.message_broker
        await mb.queue_declare("q")
        loop.jump((case["phase"] - loop.time() % 1.0) % 1.0 + 1.0)
        T = datetime.now() + timedelta(seconds=case["offset"])
        P = mb.PARAMETERS_CLASS
        await mb.enqueue(key_of(conn, "m1", "t", "q"), "p", P(delay=DelayProperties(next_execution_time=T)))
        fps.add(f"{kind}/vis/{case['offset']}/{case['phase']}")
        for cat in (MessageCategory.NORMAL, MessageCategory.DEAD, MessageCategory.DELAYED, MessageCategory.NORMAL):
            cons = mb.get_consumer("q", None, None, cat)
            await cons.start()
            stats["visibility_probes"] += 1
            try:
                key, _, params = await asyncio.wait_for(cons.consume(), 2.1)
                if cat != MessageCategory.DELAYED:
                    out.append(V("visible_as_normal_before_due", kind, cat.value, f"due in {case['offset']}s but a {cat.value} consumer received it"))
                    await mb.ack(key)
                    await cons.finish()
                    break
                await mb.reject(key)  # put it back where it came from
            except asyncio.TimeoutError:
                if cat == MessageCategory.DELAYED:
                    out.append(V("invisible_as_delayed", kind, "DELAYED", f"due in {case['offset']}s: a DELAYED consumer received nothing in 2.1 s; state {rig.snapshot().get('m1')}"))
            await cons.finish()
            await asyncio.sleep(0.15)
        await conn.disconnect()
    finally:
        rig.close()


def run_case(case):
    from rv.sim import loop as vl

    stats = collections.Counter()
    out, fps, samples = [], set(), []
    if case["type"] == "single":
        for item in case["items"]:
            res = vl.run(lambda loop, item=item: single(loop, case["kind"], tuple(item), case["latency"], case["seed"], out, stats, fps, samples), max_steps=3_000_000, seed=case["seed"])
            if res.exc is not None:
                out.append(V("harness_or_api_error", case["kind"], "single", f"{item}: {type(res.exc).__name__}: {res.exc}"))
    elif case["type"] == "multi":
        res = vl.run(lambda loop: multi(loop, case, out, stats, fps, samples), max_steps=3_000_000, seed=case["seed"])
        if res.exc is not None:
            out.append(V("harness_or_api_error", case["kind"], "multi", f"{type(res.exc).__name__}: {res.exc}"))
    elif case["type"] == "veryfar":
        res = vl.run(lambda loop: veryfar(loop, case, out, stats, fps), max_steps=6_000_000, seed=case["seed"])
        if res.exc is not None:
            out.append(V("harness_or_api_error", case["kind"], "veryfar", f"{type(res.exc).__name__}: {res.exc}"))
    elif case["type"] == "shared_due":
        res = vl.run(lambda loop: shared_due(loop, case, out, stats, fps), max_steps=6_000_000, seed=case["seed"])
        if res.exc is not None:
            out.append(V("harness_or_api_error", case["kind"], "shared_due", f"{type(res.exc).__name__}: {res.exc}"))
    elif case["type"] == "neighbour":
        res = vl.run(lambda loop: neighbour(loop, case, out, stats, fps), max_steps=6_000_000, seed=case["seed"])
        if res.exc is not None:
            out.append(V("harness_or_api_error", case["kind"], "neighbour", f"{type(res.exc).__name__}: {res.exc}"))
    elif case["type"] == "busy":
        res = vl.run(lambda loop: busy(loop, case, out, stats, fps), max_steps=6_000_000, seed=case["seed"])
        if res.exc is not None:
            out.append(V("harness_or_api_error", case["kind"], "busy", f"{type(res.exc).__name__}: {res.exc}"))
    elif case["type"] == "tz":
        import os
        import time as _time

        old = os.environ.get("TZ")
        os.environ["TZ"] = case["tz"]
        _time.tzset()
        try:
            res = vl.run(lambda loop: tz_smoke(loop, case, out, stats, fps), max_steps=6_000_000, seed=case["seed"])
        finally:
            if old is None:
                os.environ.pop("TZ", None)
            else:
                os.environ["TZ"] = old
            _time.tzset()
        if res.exc is not None:
            out.append(V("harness_or_api_error", case["kind"], "tz", f"{type(res.exc).__name__}: {res.exc}"))
    elif case["type"] == "crowd":
        res = vl.run(lambda loop: crowd(loop, case, out, stats, fps), max_steps=6_000_000, seed=case["seed"])
        if res.exc is not None:
            out.append(V("harness_or_api_error", case["kind"], "crowd", f"{type(res.exc).__name__}: {res.exc}"))
    elif case["type"] == "peek":
        res = vl.run(lambda loop: peek(loop, case, out, stats, fps), max_steps=6_000_000, seed=case["seed"])
        if res.exc is not None:
            out.append(V("harness_or_api_error", case["kind"], "peek", f"{type(res.exc).__name__}: {res.exc}"))
    else:
        res = vl.run(lambda loop: vis(loop, case, out, stats, fps), max_steps=3_000_000, seed=case["seed"])
        if res.exc is not None:
            out.append(V("harness_or_api_error", case["kind"], "vis", f"{type(res.exc).__name__}: {res.exc}"))
    if stats.get("unknown_server_commands"):
        return {"fp": None, "viol": [], "stats": dict(stats), "inconclusive": "fake server saw unknown commands"}
    ml = stats.pop("max_lateness_ms", 0)
    r = {"fp": None, "fps": sorted(fps), "viol": out[:8], "stats": dict(stats), "sets": {"max_lateness_ms_by_case": [f"{case['kind']}:{ml:07d}"]}}
    if samples and case["cid"] % 9 == 0:
        r["sample"] = samples
    return r

"""C04 - retries are bounded, counted and backed off as configured.

Jobs with retries=N and every failure pattern over their attempts (exception / timeout / success) run through real
Workers under several retry policies; the monitor counts actor starts per scheduling, follows the attempt counter
carried by the message, compares every retry's due time with failure time + policy(k), checks that no retry starts
before its due time and that the final place is right (gone / dead-lettered / rescheduled with counter 0).
"""
from __future__ import annotations

import asyncio
import collections
import itertools
import random
from datetime import datetime, timedelta

LEVEL = "exploration"
RULE = ("all failure patterns over attempts (F=exception, T=timeout, S=success) for N in {0,1,2,3}, sampled for N=7, x retry "
        "policy {default, default(random params), constant 0, linear, user lambda} x recurring x eager retry/force_retry x "
        "broker; evaluation = one job's whole retry chain judged; fingerprint = (broker, N, pattern, policy, recurring, mode); "
        "trivial = N=0 with success")
ASSUMPTIONS = ["Redis and RabbitMQ are wire-level fakes", "virtual time", "cron recurrence not exercised (croniter absent)"]
EVAL_COUNTER = "chains_judged"
REQUIRED = ["chains_judged", "retries_timed", "final_dead", "final_gone", "final_rescheduled", "forced_over_budget", "timezone_offset_runs", "waiting_retries_inspected_and_returned", "looks_before_a_months_long_backoff_is_over", "twin_chains_judged", "chains_under_a_policy_with_its_own_parameter_name"]
CASE_TIMEOUT = 150

POLICIES = ("default", "default_rand", "zero", "linear", "lambda", "positional", "other_name")


def patterns(N):
    out = []
    for k in range(N + 2):
        for combo in itertools.product("FT", repeat=min(k, N + 1)):
            if k <= N:
                out.append("".join(combo) + "S")
            else:
                out.append("".join(combo))
    return out


def gen_cases(tier, seed):
    rnd = random.Random(seed)
    cases = []
    kinds = ("mem", "redis", "rabbit")
    for kind in kinds:
        for pol in POLICIES:
            for rec in (False, True):
                for N in (0, 1, 2, 3):
                    pats = patterns(N)
                    if pol in ("default", "default_rand"):
                        # exponential policies make long virtual chains: fewer timeouts, shorter N
                        if N > 2:
                            continue
                    if tier == "quick" and pol in ("positional", "other_name") and (kind != "mem" or N in (0, 3) or rec):
                        continue
                    if tier == "quick" and kind != "mem" and (pol not in ("zero", "linear") or N == 2):
                        continue
                    if tier == "quick" and kind == "mem" and rec and pol in ("default_rand", "lambda"):
                        continue
                    cases.append({"kind": kind, "policy": pol, "rec": rec, "N": N, "patterns": pats, "mode": "ladder", "seed": rnd.randrange(10**6)})
        # eager retry / force_retry variants
        for mode in ("eager_retry", "eager_force"):
            for N in (0, 1, 2):
                if mode == "eager_retry":
                    cases.append({"kind": kind, "policy": "zero", "rec": True, "N": N, "patterns": patterns(N), "mode": mode, "seed": rnd.randrange(10**6)})
                cases.append({"kind": kind, "policy": "linear", "rec": False, "N": N, "patterns": patterns(N) if mode == "eager_retry" else ["F" * (N + 3) + "S"], "mode": mode, "seed": rnd.randrange(10**6)})
        # forced retries beyond the budget, then an ordinary failure: no budget is left, the chain must end (dead / rescheduled)
        for N in (0, 1, 3):
            for rec in (False, True):
                cases.append({"kind": kind, "policy": "linear", "rec": rec, "N": N, "patterns": ["F" * (N + 1) + "X", "F" * (N + 2) + "X", "F" * N + "XF" if N else "FX"], "mode": "force_then_fail", "seed": rnd.randrange(10**6)})
        nsamp = 6 if tier == "quick" else 40
        pats7 = ["".join(rnd.choice("FFFT") for _ in range(rnd.randint(0, 8))) for _ in range(nsamp)]
        pats7 = [p + "S" if len(p) <= 7 else p for p in pats7]
        cases.append({"kind": kind, "policy": "linear", "rec": False, "N": 7, "patterns": pats7, "mode": "ladder", "seed": rnd.randrange(10**6)})
    # recurring jobs whose period is SHORTER than their retry back-off: the retry still waits for the back-off, not for the
    # next slot of the period
    for kind in kinds:
        for pol, N in (("lambda", 2), ("linear", 3)):
            cases.append({"kind": kind, "policy": pol, "rec": True, "N": N, "patterns": patterns(N)[:6] if tier == "quick" else patterns(N), "mode": "ladder", "seed": rnd.randrange(10**6), "period": 1.0})
    # ... and with queue tooling giving waiting retries back while they wait
    # (in-memory only: on Redis a short-lived consumer's finish() can strand a prefetched message - C01's known finding -
    # which would end a chain for a reason that is not this property's)
    for kind in ("mem",):
        for pol in ("linear", "lambda", "default"):
            cases.append({"kind": kind, "policy": pol, "rec": pol == "default", "N": 2, "patterns": patterns(2), "mode": "ladder", "seed": rnd.randrange(10**6), "inspect": True})
    # the same ladders on machines whose local time is not UTC (every timestamp in a message is a naive local datetime)
    for i, tz in enumerate(("JST-9", "CET-1", "EST5", "IST-5:30", "NPT-5:45", "HST10")):
        if tier == "quick" and i >= 4:
            break
        for kind in kinds:
            cases.append({"kind": kind, "policy": ["linear", "lambda", "default"][i % 3], "rec": i % 2 == 1, "N": 2, "patterns": patterns(2), "mode": "ladder", "seed": rnd.randrange(10**6), "tz": tz})
    # back-offs of months (a policy for jobs that depend on something a human has to repair): the retry is not run weeks
    # early by a worker that comes up in between, and runs when its day has come
    for kind in kinds:
        for days in ((60,) if tier == "quick" else (50, 60, 400)):
            cases.append({"type": "months", "kind": kind, "days": days, "seed": rnd.randrange(10**6), "latency": None if kind == "mem" else 0.003, "policy": "months", "rec": False, "N": 2, "mode": "months", "patterns": []})
    # two jobs that share actor name and id and differ in priority only, failing at overlapping times: each has its own retries
    for kind in kinds:
        for dA, dB in (((0.3, 0.6), (0.6, 0.3)) if tier == "quick" else ((0.3, 0.6), (0.6, 0.3), (0.05, 0.9), (0.4, 0.45))):
            cases.append({"type": "twins_retry", "kind": kind, "dA": dA, "dB": dB, "seed": rnd.randrange(10**6), "latency": None if kind == "mem" else 0.002, "policy": "linear", "rec": False, "N": 2, "mode": "twins_retry", "patterns": []})
    if tier == "thorough":
        extra = []
        for c in cases:
            for s in (1, 2):
                d = dict(c)
                d["seed"] = c["seed"] + s
                d["latency"] = [None, 0.004][s - 1] if c["kind"] != "mem" else None
                extra.append(d)
        cases += extra
    return cases


def V(rule, kind, ctx, detail):
    return {"rule": rule, "broker": kind, "context": ctx, "detail": detail}


def make_policy(name, rnd):
    from repid.retry_policy import default_retry_policy_factory

    if name == "default":
        return default_retry_policy_factory(), "default()"
    if name == "default_rand":
        mn = rnd.choice([1, 2, 5])
        mx = rnd.choice([mn, mn + 3, 40])
        mult = rnd.choice([1, 2, 3])
        mexp = rnd.choice([1, 2, 4])
        return default_retry_policy_factory(min_backoff=mn, max_backoff=mx, multiplier=mult, max_exponent=mexp), f"default({mn},{mx},{mult},{mexp})"
    if name == "zero":
        return (lambda retry_number=1: timedelta(0)), "zero"
    if name == "positional":
        # a user function whose parameter has a name of its own (the documented call is positional)
        def backoff(attempt, /):
            return timedelta(seconds=0.4 * attempt)

        return backoff, "def backoff(attempt, /)"
    if name == "other_name":
        return (lambda n=1: timedelta(seconds=0.25 + 0.1 * n)), "lambda n"
    if name == "linear":
        return (lambda retry_number=1: timedelta(seconds=0.7 * retry_number)), "linear(0.7k)"
    return (lambda retry_number=1: timedelta(seconds=[0.3, 2.5, 0.05, 1.0][retry_number % 4], microseconds=retry_number)), "lambda"


PERIOD = 25.0


async def twins_retry_scenario(loop, case, out, stats, fps):
    from repid import PrioritiesT
    from rv.wl import World, run_worker

    kind = case["kind"]
    w = World(loop, kind, converter="basic", seed=case["seed"], latency=case["latency"])
    try:
        await w.open()
        r = w.router(retry_policy=lambda retry_number=1: timedelta(seconds=0.7 * retry_number))
        w.scripted_actor(r, "act")
        await w.conn.message_broker.queue_declare("default")
        twins = {"A": (PrioritiesT.HIGH, case["dA"]), "B": (PrioritiesT.LOW, case["dB"])}
        for lab, (prio, d) in twins.items():
            # fails twice (after d seconds), then succeeds: three executions, attempts 0, 1, 2
            script = {"by_attempt": [{"do": "raise", "exc": "ValueError", "d": d}, {"do": "raise", "exc": "KeyError", "d": d}, {"do": "ok", "d": 0.01}], "label": lab}
            await w.job("act", "same", script, priority=prio, retries=2, timeout=timedelta(seconds=5), store_result=False, args_id=f"args-{lab}", result_id=f"res-{lab}").enqueue()

        def acks():
            return [e for e in w.log.events if e.get("id") == "same" and e["k"] == "ret" and e.get("op") == "ack" and e.get("depth") == 0]

        info = await run_worker(w, w.worker([r], tasks_limit=10, graceful_shutdown_time=3.0, handle_signals=[__import__("signal").SIGUSR1]), until=lambda: len(acks()) >= 2, horizon=25.0, poll=0.25)
        if info["exc"] is not None or not info["returned"]:
            out.append(V("worker_died", kind, "twins_retry", f"{info}"))
        await asyncio.sleep(0.3)
        places = w.rig.snapshot(detail=True).get("same", [])
        fps.add(f"{kind}/twins_retry/{case['dA']}/{case['dB']}")
        for lab, (prio, d) in twins.items():
            stats["chains_judged"] += 1
            stats["twin_chains_judged"] += 1
            runs = [e for e in w.events("actor_start") if e.get("label") == lab]
            tried = [e.get("attempt") for e in runs]
            if tried != [0, 1, 2]:
                mine = [pl for pl, _q, pr in places if pr == prio.value]
                out.append(V("attempt_count", kind, "twins_retry", f"twin {lab} (priority {prio.value}; same actor name and id as its twin, failures after {d}s): executions with attempt counters {tried}, expected [0, 1, 2]; "
                                                                   f"its message is at {mine or 'no queue'} after 25 s"))
        if places:
            out.append(V("wrong_final_place", kind, "twins_retry", f"both twins succeeded at their third attempt, yet {places} is left"))
        stats["unknown_server_commands"] += w.rig.unknown_commands()
    finally:
        await w.close()


async def months_scenario(loop, case, out, stats, fps):
    from rv.sim.loop import EPOCH_S
    from rv.wl import World, run_worker

    kind, days = case["kind"], case["days"]
    w = World(loop, kind, converter="basic", seed=case["seed"], latency=case["latency"])
    try:
        await w.open()
        policy = lambda retry_number=1: timedelta(days=days * retry_number, seconds=0.25)  # noqa: E731
        r = w.router(retry_policy=policy)
        w.scripted_actor(r, "act")
        await w.conn.message_broker.queue_declare("default")
        await w.job("act", "m1", {"by_attempt": [{"do": "raise", "exc": "ValueError"}, {"do": "ok", "ret": 1}]}, retries=2, timeout=timedelta(seconds=5), store_result=False).enqueue()
        sig = __import__("signal").SIGUSR1

        def starts():
            return [e for e in w.log.events if e.get("id") == "m1" and e["k"] == "actor_start"]

        def requeues():
            return [e for e in w.log.events if e.get("id") == "m1" and e["k"] == "ret" and e.get("op") == "requeue" and e.get("depth") == 0]

        info = await run_worker(w, w.worker([r], tasks_limit=5, graceful_shutdown_time=2.0, handle_signals=[sig]), until=lambda: bool(requeues()), horizon=20.0)
        if not requeues() or info["exc"] is not None:
            out.append(V("harness_or_api_error", kind, "months", f"the first failure was not put back for a retry: {info}"))
            return
        rq = next(e for e in w.log.events if e.get("id") == "m1" and e["k"] == "call" and e.get("op") == "requeue" and e.get("depth") == 0)
        t_due = rq["t"] + policy(1).total_seconds()
        ctx = f"months/{days}d"
        fps.add(f"{kind}/months/{days}")
        stats["chains_judged"] += 1
        # workers that come up a day later, after 49.8 days (2^32 ms and a little), a day before the retry is due
        for t_look in sorted({rq["t"] + 86400.0, rq["t"] + 49.8 * 86400.0, t_due - 86400.0}):
            if t_look >= t_due - 3600:
                continue
            await asyncio.sleep(0.5)
            await w.rig.quiesce_wire()
            loop.jump_to(t_look)
            stats["looks_before_a_months_long_backoff_is_over"] += 1
            n0 = len(starts())
            await run_worker(w, w.worker([r], tasks_limit=5, graceful_shutdown_time=2.0, handle_signals=[sig]), until=lambda: len(starts()) > n0, horizon=4.0)
            if len(starts()) > n0:
                out.append(V("early_retry", kind, ctx + "/start", f"retry 1 is due {days} days and 0.25 s after the failure (t={rq['t']:.3f}); a worker started {(loop.time() - rq['t']) / 86400.0:.2f} days after it executed the retry, "
                                                                  f"{(t_due - starts()[-1]['t']) / 86400.0:.2f} days early"))
                return
        await asyncio.sleep(0.5)
        await w.rig.quiesce_wire()
        loop.jump_to(t_due + 1.0)
        n0 = len(starts())
        await run_worker(w, w.worker([r], tasks_limit=5, graceful_shutdown_time=2.0, handle_signals=[sig]), until=lambda: len(starts()) > n0 and not w.inflight, horizon=15.0)
        stats["retries_timed"] += 1
        if len(starts()) != 2 or starts()[-1].get("attempt") != 1:
            out.append(V("attempt_count", kind, ctx + "/late", f"the retry due {days} days after the failure was not executed by a worker running 1-16 s after its due time; executions {[(round(e['t'], 1), e.get('attempt')) for e in starts()]}, place {w.rig.snapshot().get('m1')}"))
        stats["unknown_server_commands"] += w.rig.unknown_commands()
    finally:
        await w.close()


async def scenario(loop, case, out, stats, fps, samples):
    from rv.wl import World, run_worker

    if case.get("type") == "months":
        return await months_scenario(loop, case, out, stats, fps)
    if case.get("type") == "twins_retry":
        return await twins_retry_scenario(loop, case, out, stats, fps)
    kind = case["kind"]
    rnd = random.Random(case["seed"])
    lat = case.get("latency", None if kind == "mem" else 0.001)
    w = World(loop, kind, converter="basic", seed=case["seed"], latency=lat)
    try:
        await w.open()
        policy, polname = make_policy(case["policy"], rnd)
        r = w.router(retry_policy=policy)
        w.scripted_actor(r, "act")
        await w.conn.message_broker.queue_declare("default")
        N, mode = case["N"], case["mode"]
        jobs = {}
        for i, pat in enumerate(case["patterns"]):
            steps = []
            for ch in pat:
                if mode == "ladder":
                    # (every third failure is an unencodable return value instead of an exception: it counts the same)
                    fail_step = {"do": "badret", "what": "set"} if (i + len(steps)) % 3 == 2 else {"do": "raise", "exc": "ValueError"}
                    if ch == "F" and fail_step["do"] == "badret":
                        stats["failures_by_unencodable_return"] += 1
                    steps.append(fail_step if ch == "F" else {"do": "ok", "d": 3.0} if ch == "T" else {"do": "ok", "ret": 1})
                elif mode == "force_then_fail":
                    steps.append({"do": "eager", "action": "force_retry", "pre": []} if ch == "F" else {"do": "raise", "exc": "KeyError"} if ch == "X" else {"do": "ok", "ret": 1})
                else:
                    if ch == "S":
                        steps.append({"do": "ok", "ret": 1})
                    else:
                        steps.append({"do": "eager", "action": "retry" if mode == "eager_retry" else "force_retry", "pre": []})
            steps.append({"do": "ok", "ret": "beyond-pattern"})
            id_ = f"j{i:03d}"
            kw = dict(retries=N, timeout=timedelta(seconds=1), store_result=False)
            if case["rec"]:
                kw["deferred_by"] = timedelta(seconds=case.get("period", PERIOD))
            await w.job("act", id_, {"by_attempt": steps}, **kw).enqueue()
            jobs[id_] = pat
        # horizon: sum of back-offs of the longest chain + timeouts + period
        longest = max((sum(policy(k + 1).total_seconds() for k in range(min(len(p), N + (3 if mode == "eager_force" else 0)))) + 3.5 * p.count("T") for p in jobs.values()), default=0)
        horizon = 1.2 * longest + (PERIOD + 5 if case["rec"] else 0) + 40.0  # generous: `until` ends the run as soon as all chains are final

        def finals():
            return len({e.get("id") for e in w.log.events if e.get("k") == "call" and e.get("depth") == 0 and (e.get("op") in ("ack", "nack") or (e.get("op") == "requeue" and (e.get("params") or {}).get("tried") == 0))})

        worker = w.worker([r], tasks_limit=1000, graceful_shutdown_time=5.0, handle_signals=[__import__("signal").SIGUSR1])
        insp = None
        if case.get("inspect"):
            # queue tooling at work while retries wait: a DELAYED-category reader takes waiting messages one by one, looks at
            # them and gives them straight back; their back-off is what it was
            from repid.message import MessageCategory

            async def inspector():
                while True:
                    await asyncio.sleep(0.11)
                    cons = w.conn.message_broker.get_consumer("default", None, None, MessageCategory.DELAYED)
                    await cons.start()
                    try:
                        key, _pl, _pr = await asyncio.wait_for(cons.consume(), 0.3 if kind == "mem" else 1.2)
                        await w.conn.message_broker.reject(key)
                        stats["waiting_retries_inspected_and_returned"] += 1
                    except asyncio.TimeoutError:
                        pass
                    await cons.finish()

            insp = loop.create_task(inspector())
        info = await run_worker(w, worker, until=lambda: finals() >= len(jobs), horizon=horizon, poll=0.25)
        if insp is not None:
            insp.cancel()
            try:
                await insp
            except BaseException:  # noqa: BLE001
                pass
        if info["exc"] is not None or not info["returned"]:
            out.append(V("worker_died", kind, "run", f"Worker.run: exc={info['exc']!r} returned={info['returned']}"))
        await asyncio.sleep(0.3)
        snap = w.rig.snapshot()
        from rv.sim.loop import EPOCH_S

        epoch = datetime.fromtimestamp(EPOCH_S)  # naive local time of virtual instant 0 (2040-01-01 00:00 on a UTC machine)
        for id_, pat in jobs.items():
            es = [e for e in w.log.events if e.get("id") == id_]
            starts = [e for e in es if e["k"] == "actor_start"]
            reqs = [e for e in es if e["k"] == "call" and e.get("op") == "requeue" and e.get("depth") == 0]
            fins = [e for e in es if e["k"] == "call" and e.get("depth") == 0 and e.get("op") in ("ack", "nack")]
            # first scheduling only: until the first terminal action (ack / nack / reschedule with counter 0)
            first_final_n = None
            for e in es:
                if e["k"] == "call" and e.get("depth") == 0 and (e.get("op") in ("ack", "nack") or (e.get("op") == "requeue" and (e.get("params") or {}).get("tried") == 0)):
                    first_final_n = e["n"]
                    break
            if first_final_n is None and kind == "rabbit" and snap.get(id_) == ["delayed"]:
                # RabbitMQ expires per-message TTLs only at the head of the queue: a short back-off parked behind a long
                # delay is late, not early (bounded lateness is C05's business, listed there)
                stats["rabbit_retry_still_parked_at_horizon"] += 1
                continue
            if first_final_n is None:
                out.append(V("attempt_count", kind, "no-final", f"{id_} pattern {pat} N={N} policy={polname}: chain did not reach a terminal action within {horizon:.0f}s; starts={len(starts)}"))
                continue
            sched_starts = [e for e in starts if e["n"] < first_final_n]
            sched_reqs = [e for e in reqs if e["n"] < first_final_n]
            ctx = f"{mode}/{case['policy']}" + ("/rec" if case["rec"] else "")
            fps.add(f"{kind}/{N}/{pat}/{case['policy']}/{int(case['rec'])}/{mode}")
            stats["chains_judged"] += 1
            if case["policy"] in ("positional", "other_name"):
                stats["chains_under_a_policy_with_its_own_parameter_name"] += 1
            # every scheduling of the job carries the budget it was enqueued with (a recurring job's next run gets N again)
            lost = [e for e in starts if e.get("retries_max") not in (None, N)]
            if lost:
                out.append(V("attempt_count", kind, "retry-budget-changed" + ("/rec" if case["rec"] else ""), f"{id_} enqueued with retries={N}: execution #{starts.index(lost[0]) + 1} (attempt {lost[0]['attempt']}) saw a budget of {lost[0]['retries_max']}"))
            # expected number of executions
            if mode == "ladder":
                fail_prefix = len(pat) - 1 if pat.endswith("S") else len(pat)
                exp_starts = fail_prefix + 1 if pat.endswith("S") and fail_prefix <= N else N + 1
                exp_final = "success" if (pat.endswith("S") and fail_prefix <= N) else "exhausted"
            elif mode == "eager_retry":
                fail_prefix = len(pat) - 1 if pat.endswith("S") else len(pat)
                exp_starts = min(fail_prefix, N) + 1
                # retry refused at attempt N -> ValueError in the actor -> failure with no budget left
                exp_final = "success" if (pat.endswith("S") and fail_prefix <= N) else "exhausted"
            elif mode == "force_then_fail":
                # forced retries run regardless of the budget; the first ORDINARY failure with already_tried >= N ends the chain
                k = pat.index("X")
                exp_starts = k + 1 if k >= N else None
                exp_final = "exhausted"
                stats["forced_over_budget"] += 1
                if exp_starts is None:
                    # the ordinary failure still has budget: it is retried, later steps decide; only the counters are judged
                    exp_starts = len(sched_starts)
            else:
                fail_prefix = len(pat) - 1
                exp_starts = fail_prefix + 1
                exp_final = "success"
                stats["forced_over_budget"] += 1 if fail_prefix > N else 0
            if len(sched_starts) != exp_starts:
                out.append(V("attempt_count", kind, ctx, f"{id_} pattern {pat} N={N}: {len(sched_starts)} executions in the first scheduling, expected {exp_starts}"))
            # attempt counter: 0,1,2,...
            tried = [e["attempt"] for e in sched_starts]
            if tried != list(range(len(tried))):
                out.append(V("counter_step", kind, ctx, f"{id_} pattern {pat}: attempt counters seen at the actor {tried}"))
            if mode not in ("eager_force", "force_then_fail") and any(t > N for t in tried):
                out.append(V("counter_over_budget", kind, ctx, f"{id_} N={N}: attempt counter reached {max(tried)} without a forced retry"))
            # back-off: every retry requeue is due at failure time + policy(k); the k-th retry never starts earlier
            for k, rq in enumerate(sched_reqs, start=1):
                p = rq.get("params") or {}
                if p.get("tried") != k:
                    out.append(V("counter_step", kind, ctx, f"{id_}: {k}-th retry requeued with already_tried={p.get('tried')}"))
                    continue
                want = epoch + timedelta(seconds=rq["t"]) + policy(k)
                nxt = datetime.fromisoformat(p["next"]) if p.get("next") else None
                stats["retries_timed"] += 1
                if nxt is None or abs((nxt - want).total_seconds()) > 2e-5:
                    out.append(V("early_retry" if (nxt is None or nxt < want) else "late_retry", kind, ctx + "/due", f"{id_}: retry {k} due {nxt}, expected failure time + policy({k}) = {want}"))
                if len(sched_starts) > k:
                    st = epoch + timedelta(seconds=sched_starts[k]["t"])
                    if nxt is not None and st < nxt - timedelta(milliseconds=1):
                        out.append(V("early_retry", kind, ctx + "/start", f"{id_}: retry {k} started at {st}, {(nxt - st).total_seconds():.3f}s before its due time {nxt} (policy {polname})"))
            # final place
            place = snap.get(id_, [])
            st = w.rig.stored(id_)
            later_start = any(e["k"] == "actor_start" and e["n"] > first_final_n for e in es)
            if case["rec"]:
                stats["final_rescheduled"] += 1
                fin = next(e for e in es if e["n"] == first_final_n)
                if later_start:
                    pass  # the next scheduling is already under way; its own chain is not judged here
                elif fin.get("op") != "requeue":
                    out.append(V("wrong_final_place", kind, ctx, f"{id_} recurring, pattern {pat}: first scheduling ended with {fin.get('op')} instead of a reschedule"))
                elif place not in ((["delayed"], ["waiting"], ["held"]) if case.get("period", PERIOD) <= 2 else (["delayed"],)) and not any(e["k"] == "actor_start" and e["n"] > first_final_n for e in es):
                    # (with a one-second period the successor may be due - and waiting, or already taken by the worker's
                    # prefetching consumer when the stop request came - by the time the state is looked at; what becomes of a
                    # message taken by a stopping worker is C01's and C03's subject, here it has been rescheduled once)
                    out.append(V("wrong_final_place", kind, ctx, f"{id_} recurring: after the reschedule the message is at {place}"))
                elif st is not None and st[1] is not None and place == ["delayed"] and st[1]["tried"] != 0:
                    out.append(V("wrong_final_place", kind, ctx, f"{id_} recurring successor carries already_tried={st[1]['tried']}"))
            elif exp_final == "success":
                stats["final_gone"] += 1
                if place or not fins or fins[0]["op"] != "ack":
                    out.append(V("wrong_final_place", kind, ctx, f"{id_} pattern {pat}: succeeded but is at {place}; final calls {[e['op'] for e in fins]}"))
            else:
                stats["final_dead"] += 1
                if place != ["dead"] or not fins or fins[0]["op"] != "nack":
                    out.append(V("wrong_final_place", kind, ctx, f"{id_} pattern {pat} N={N}: retries exhausted but message is at {place}; final calls {[e['op'] for e in fins]}"))
            if len(samples) < 2 and len(pat) > 1:
                samples.append({"id": id_, "pattern": pat, "N": N, "policy": polname, "attempts_seen": tried,
                                "retry_due_offsets_s": [round((datetime.fromisoformat(r_["params"]["next"]) - epoch).total_seconds() - r_["t"], 6) for r_ in sched_reqs if (r_.get("params") or {}).get("next")]})
        stats["unknown_server_commands"] += w.rig.unknown_commands()
    finally:
        await w.close()


def run_case(case):
    from rv.sim import loop as vl

    stats = collections.Counter()
    out, fps, samples = [], set(), []
    import os
    import time as _time

    old_tz = os.environ.get("TZ")
    if case.get("tz"):
        os.environ["TZ"] = case["tz"]
        _time.tzset()
        stats["timezone_offset_runs"] += 1
    try:
        res = vl.run(lambda loop: scenario(loop, case, out, stats, fps, samples), max_steps=6_000_000, seed=case["seed"])
    finally:
        if case.get("tz"):
            if old_tz is None:
                os.environ.pop("TZ", None)
            else:
                os.environ["TZ"] = old_tz
            _time.tzset()
    if res.exc is not None:
        if isinstance(res.exc, vl.StepLimit):
            return {"fp": None, "viol": [], "stats": dict(stats), "inconclusive": str(res.exc)}
        out.append(V("harness_or_api_error", case["kind"], "scenario", f"{type(res.exc).__name__}: {res.exc}"))
    if res.exc_log:
        out.append(V("inv:loop", case["kind"], "unhandled", f"event loop reported: {res.exc_log[:2]}"))
    if stats.get("unknown_server_commands"):
        return {"fp": None, "viol": [], "stats": dict(stats), "inconclusive": "fake server saw unknown commands"}
    # trivial: N=0 success only
    r = {"fp": None, "fps": sorted(f for f in fps if not f.split("/")[1:3] == ["0", "S"]), "viol": out[:8], "stats": dict(stats)}
    if samples and case["cid"] % 7 == 0:
        r["sample"] = {"broker": case["kind"], "mode": case["mode"], "recurring": case["rec"], "chains": samples}
    return r

"""C08 - arguments bind to the actor signature identically under every converter.

Generated signatures x payloads go through the real converters; what the actor would be called with is bound to the
signature (exactly what Python would do with fn(*args, **kwargs, **dependencies)) and compared with a 15-line
reference binder; Basic and Pydantic are compared with each other on typed payloads; encoded outputs are decoded
again; a sample goes end-to-end through a Worker with the default converter selection.
"""
from __future__ import annotations

import asyncio
import collections
import inspect
import json
import random
from datetime import timedelta

LEVEL = "exploration"
RULE = ("generated signatures (<= 5 parameters over positional-only / positional-or-keyword / keyword-only, defaults, *args, **kwargs, "
        "dependency parameters interleaved; annotations int,str,float,bool,list[int],dict[str,int],Optional[int],none) x payloads {empty "
        "string, {}, exact, each required key missing, optional keys missing, extra keys, missing+extra} x {Basic, Pydantic}; evaluation = one "
        "(signature, payload, converter) judged; fingerprint = (signature shape, payload shape, converter); trivial = signatures without parameters")
ASSUMPTIONS = ["payload values already have the annotated types (coercion is not part of the property)", "Pydantic v1 converter not exercised",
               "payload keys never collide with dependency parameter names"]
EVAL_COUNTER = "bindings_judged"
REQUIRED = ["consecutive_jobs_of_one_catch_all_actor", "jobs_whose_parameter_names_are_framework_words", "bindings_judged", "shape_empty_string", "shape_missing_required", "shape_extra", "converters_compared", "outputs_roundtripped", "e2e_default_converter", "bindings_with_off_type_default_used", "rewritten_bucket_steps", "positional_catch_all_jobs"]
CASE_TIMEOUT = 120


def gen_cases(tier, seed):
    rnd = random.Random(seed)
    n = {"quick": 48, "thorough": 900}[tier]
    cases = [{"type": "sigs", "seed": rnd.randrange(10**6), "n": 40} for _ in range(n)]
    cases.append({"type": "outputs", "seed": rnd.randrange(10**6)})
    for i in range({"quick": 6, "thorough": 24}[tier]):
        # through every broker's wire form (an argument-less job's payload is the empty string there)
        cases.append({"type": "e2e", "seed": rnd.randrange(10**6), "kind": ["mem", "redis", "rabbit"][i % 3]})
    return cases


def V(rule, ctx, detail):
    return {"rule": rule, "broker": "-", "context": ctx, "detail": detail}


def gen_spec(rnd):
    from rv.actors import SAMPLE

    n = rnd.randint(0, 5)
    names = ["a", "b", "c", "d", "e"]
    kinds = sorted((rnd.choice(["po", "pk", "pk", "ko", "dep"]) for _ in range(n)), key=lambda k: {"po": 0, "pk": 1, "dep": 1, "ko": 2}[k])
    spec = []
    seen_default = False
    for i, k in enumerate(kinds):
        if k == "dep":
            dk = rnd.choice(["pk", "ko"]) if not seen_default else "ko"
            spec.append({"name": f"dep{i}", "kind": "dep", "dep_kind": dk})
            continue
        anno = rnd.choice(list(SAMPLE))
        has_default = rnd.random() < 0.45 or (seen_default and k in ("po", "pk"))
        if has_default and k in ("po", "pk"):
            seen_default = True
        default = rnd.choice(SAMPLE[anno]) if has_default else None
        if has_default and rnd.random() < 0.3:
            # defaults people really write: a sentinel or a value of another type than the annotation (`n: int = None`,
            # `tags: list = ()`): when the payload has no entry the function gets its own default object, untouched
            default = rnd.choice([None, None, (), 0, "", "7", -1.0])
        spec.append({"name": names[i], "kind": k, "anno": anno, "has_default": has_default, "default": default, "odd_default": has_default and default not in SAMPLE[anno]})
    # dependency parameters declared positional-or-keyword must not follow defaulted ones: push them keyword-only when needed
    fixed, after_default = [], False
    for p in spec:
        if p["kind"] in ("po", "pk") and p.get("has_default"):
            after_default = True
        if p["kind"] == "dep" and p["dep_kind"] == "pk" and after_default:
            p["dep_kind"] = "ko"
        fixed.append(p)
    spec = sorted(fixed, key=lambda p: {"po": 0, "pk": 1, "ko": 3}.get(p["kind"] if p["kind"] != "dep" else p["dep_kind"], 1))
    va, vk = rnd.random() < 0.25, rnd.random() < 0.25
    out = [p for p in spec if (p["kind"] if p["kind"] != "dep" else p["dep_kind"]) in ("po", "pk")]
    if va:
        out.append({"name": "args", "kind": "var_args"})
    out += [p for p in spec if (p["kind"] if p["kind"] != "dep" else p["dep_kind"]) == "ko"]
    if vk:
        out.append({"name": "kwargs", "kind": "var_kwargs"})
    return out


def payloads_for(spec, rnd):
    from rv.actors import SAMPLE

    plain = [p for p in spec if p["kind"] in ("po", "pk", "ko")]
    exact = {p["name"]: rnd.choice(SAMPLE[p["anno"]]) for p in plain}
    req = [p["name"] for p in plain if not p["has_default"]]
    opt = [p["name"] for p in plain if p["has_default"]]
    out = [("empty_string", None), ("empty_object", {}), ("exact", dict(exact))]
    for r in req:
        out.append(("missing_required", {k: v for k, v in exact.items() if k != r}))
    if opt:
        out.append(("missing_optional", {k: v for k, v in exact.items() if k not in opt}))
        out.append(("missing_one_optional", {k: v for k, v in exact.items() if k != opt[0]}))
    extra = dict(exact)
    extra["zz1"] = 11
    extra["zz2"] = "x"
    out.append(("extra", extra))
    if req:
        me = {k: v for k, v in extra.items() if k != req[0]}
        out.append(("missing_required_and_extra", me))
    return out


def reference_bind(spec, payload):
    """-> ('fail', why) | ('ok', {param: value}, extras_args(list), extras_kwargs(dict))"""
    payload = dict(payload or {})
    vals = {}
    for p in spec:
        if p["kind"] in ("po", "pk", "ko"):
            if p["name"] in payload:
                vals[p["name"]] = payload.pop(p["name"])
            elif p["has_default"]:
                vals[p["name"]] = p["default"]
            else:
                return ("fail", f"no entry and no default for {p['name']}")
    has_va = any(p["kind"] == "var_args" for p in spec)
    has_vk = any(p["kind"] == "var_kwargs" for p in spec)
    ea, ek = [], {}
    if has_vk:
        ek = payload
    elif has_va:
        ea = list(payload.values())
    return ("ok", vals, ea, ek)


def observe(conv, sig, spec, data):
    """What the actor would be called with: ('fail', stage, exc) | ('ok', {param: value}, args_extras, kwargs_extras)"""
    deps = {p["name"]: "DEP" for p in spec if p["kind"] == "dep"}
    try:
        args, kwargs = conv.convert_inputs(data)
    except Exception as exc:  # noqa: BLE001
        return ("fail", "convert", exc)
    try:
        ba = sig.bind(*args, **kwargs, **deps)
    except TypeError as exc:
        return ("fail", "call", exc)
    ba.apply_defaults()
    vals = {k: v for k, v in ba.arguments.items() if k not in deps and k not in ("args", "kwargs")}
    return ("ok", vals, list(ba.arguments.get("args", ())), dict(ba.arguments.get("kwargs", {})))


def scribble(v):
    """Mutate every list/dict inside v in place (what sort/pop/append/clear in an actor amount to). True if anything changed."""
    changed = False
    if isinstance(v, list):
        for x in list(v):
            changed |= scribble(x)
        v.append("scribbled")
        changed = True
    elif isinstance(v, dict):
        for x in list(v.values()):
            changed |= scribble(x)
        v["scribbled"] = True
        changed = True
    elif isinstance(v, tuple):
        for x in v:
            changed |= scribble(x)
    return changed


def shape(spec):
    return ",".join((p["kind"] if p["kind"] != "dep" else "dep-" + p["dep_kind"]) + ("=" if p.get("has_default") else "") + (":" + p["anno"] if "anno" in p else "") for p in spec)


def sigs_case(case, out, stats, fps, samples):
    from repid.converter import BasicConverter, PydanticConverter
    from rv.actors import build_signature_fn

    rnd = random.Random(case["seed"])
    for _ in range(case["n"]):
        spec = gen_spec(rnd)
        fn, _calls = build_signature_fn(spec)
        sig = inspect.signature(fn)
        has_var = any(p["kind"] in ("var_args", "var_kwargs") for p in spec)
        convs = {}
        try:
            convs["basic"] = BasicConverter(fn)
        except Exception as exc:  # noqa: BLE001
            out.append(V("spurious_failure", "declaration/basic", f"{shape(spec)}: BasicConverter raised {exc!r}"))
        if not has_var:
            try:
                convs["pydantic"] = PydanticConverter(fn)
            except Exception as exc:  # noqa: BLE001
                out.append(V("spurious_failure", "declaration/pydantic", f"{shape(spec)}: PydanticConverter raised {exc!r}"))
        for cname, conv in convs.items():
            want_deps = sorted(p["name"] for p in spec if p["kind"] == "dep")
            if sorted(conv.dependencies) != want_deps:
                out.append(V("bound_wrong", f"{cname}/dependencies", f"{shape(spec)}: dependencies {sorted(conv.dependencies)} != {want_deps}"))
        for pshape, payload in payloads_for(spec, rnd):
            data = "" if payload is None else json.dumps(payload)
            ref = reference_bind(spec, payload)
            if ref[0] == "ok" and any(p_.get("odd_default") and p_["name"] not in (payload or {}) for p_ in spec):
                stats["bindings_with_off_type_default_used"] += 1
            obs = {}
            for cname, conv in convs.items():
                stats["bindings_judged"] += 1
                stats["shape_" + ("empty_string" if pshape == "empty_string" else "missing_required" if "missing_required" in pshape else "extra" if "extra" in pshape else "other")] += 1
                o = observe(conv, sig, spec, data)
                obs[cname] = o
                if spec:
                    fps.add(f"{shape(spec)}|{pshape}|{cname}")
                where = f"signature ({shape(spec)}) payload {data!r} [{pshape}] under {cname}"
                ctx = f"{cname}/{pshape}"
                if ref[0] == "fail":
                    if o[0] == "ok":
                        bad = {k: v for k, v in o[1].items() if v is inspect.Parameter.empty or k not in (payload or {})}
                        out.append(V("made_up_value", ctx, f"{where}: {ref[1]}, yet the actor would run with {o[1]} (made up: {bad})"))
                    continue
                if o[0] == "fail":
                    out.append(V("spurious_failure", ctx + ("/var_args" if any(p["kind"] == "var_args" for p in spec) else ""), f"{where}: expected {ref[1]} extras {ref[2]} {ref[3]}, but the execution fails at {o[1]}: {o[2]!r}"))
                    continue
                if o[1] != ref[1] or any(type(o[1][k]) is not type(ref[1][k]) for k in ref[1]):
                    diff = {k: (o[1].get(k), ref[1][k]) for k in ref[1] if o[1].get(k) != ref[1][k] or type(o[1].get(k)) is not type(ref[1][k])}
                    out.append(V("bound_wrong", ctx, f"{where}: (got, expected) {diff}"))
                if o[2] != ref[2] or o[3] != ref[3]:
                    out.append(V("extras_misplaced", ctx, f"{where}: extras got args={o[2]} kwargs={o[3]}, expected args={ref[2]} kwargs={ref[3]}"))
                # an actor may do what it likes with its arguments: a later execution with the same payload (a retry, the
                # next run of a recurring job, an equal job) still gets the payload's values
                # (only what came out of the payload: a default is the function's own object, shared by Python itself)
                if scribble([[v for k, v in o[1].items() if k in (payload or {})], o[2], o[3]]):
                    stats["rebinds_after_mutation"] += 1
                    o2 = observe(conv, sig, spec, data)
                    if o2[0] != "ok" or o2[1] != ref[1] or o2[2] != ref[2] or o2[3] != ref[3]:
                        out.append(V("bound_wrong", f"{cname}/second-execution-after-arguments-were-mutated", f"{where}: after the first execution changed its arguments in place, an equal payload binds {str(o2[1:])[:200]} (expected {str(ref[1:])[:200]})"))
            if len(obs) == 2 and ref[0] == "ok":
                stats["converters_compared"] += 1
                b, p = obs["basic"], obs["pydantic"]
                if b[0] == "ok" and p[0] == "ok" and (b[1:] != p[1:]):
                    out.append(V("converters_disagree", pshape, f"({shape(spec)}) payload {data!r}: basic {b[1:]} vs pydantic {p[1:]}"))
            if len(samples) < 2 and len(spec) >= 3 and pshape == "extra":
                samples.append({"signature": shape(spec), "payload": data, "expected": str(ref)[:200], "observed": {k: str(v)[:200] for k, v in obs.items()}})


def outputs_case(case, out, stats, fps):
    import dataclasses
    from datetime import date, datetime

    import pydantic
    from repid.converter import BasicConverter, PydanticConverter
    from rv.actors import build_signature_fn

    rnd = random.Random(case["seed"])

    class Model(pydantic.BaseModel):
        x: int
        y: str = "d"

    @dataclasses.dataclass
    class DC:
        a: int
        b: list

    def rand_json(depth=0):
        k = rnd.random()
        if depth > 2 or k < 0.4:
            return rnd.choice([0, 1, -5, 2**40, 1.5, -0.0, "s", "", "ünï", True, False, None])
        if k < 0.7:
            return [rand_json(depth + 1) for _ in range(rnd.randint(0, 3))]
        return {f"k{i}": rand_json(depth + 1) for i in range(rnd.randint(0, 3))}

    values = [rand_json() for _ in range(300)] + [Model(x=1), DC(1, [2]), {"m": Model(x=2, y="z")}, [DC(3, [])], date(2040, 1, 2), datetime(2040, 1, 2, 3, 4, 5, 6), timedelta(seconds=1.5)]
    from repid._utils import JSON_ENCODER

    def normal(v):
        return json.loads(JSON_ENCODER.encode(v))

    for annot, vals in ((None, values), (int, [1, 0, -3]), (list[int], [[1, 2], []]), (dict[str, int], [{"a": 1}]), (Model, [Model(x=5)]), (str, ["a"])):
        fn, _ = build_signature_fn([], ret_anno=annot)
        for cname, cls in (("basic", BasicConverter), ("pydantic", PydanticConverter)):
            conv = cls(fn)
            for v in vals:
                stats["outputs_roundtripped"] += 1
                fps.add(f"out/{cname}/{annot}/{type(v).__name__}")
                try:
                    enc = conv.convert_outputs(v)
                    dec = json.loads(enc)
                except Exception as exc:  # noqa: BLE001
                    out.append(V("output_roundtrip", f"{cname}/raises", f"convert_outputs({v!r}) with return annotation {annot}: {exc!r}"))
                    continue
                want = normal(v) if not (annot is Model and isinstance(v, dict)) else normal(Model(**v))
                if dec != want or (isinstance(want, float) and str(dec) != str(want)):
                    out.append(V("output_roundtrip", cname, f"value {v!r} (annotation {annot}) encoded as {enc!r}, decodes to {dec!r}, expected {want!r}"))


async def e2e(loop, case, out, stats, fps):
    """Through a Worker with the DEFAULT converter selection: a job enqueued without arguments runs an actor whose
    parameters all have defaults; a payload lacking a required parameter never reaches the body."""
    from repid import Job, Router, Worker
    from rv.actors import build_signature_fn
    from rv.rigs import Rig

    rnd = random.Random(case["seed"])
    rig = Rig(case.get("kind", "mem"), loop, seed=case["seed"])
    try:
        conn = rig.make_connection("p1")
        await conn.connect()
        await conn.message_broker.queue_declare("default")
        stats["e2e_on_" + case.get("kind", "mem")] += 1
        r = Router()  # RouterDefaults -> Config.CONVERTER -> DefaultConverter
        plans = []
        for i in range(12):
            spec = [p for p in gen_spec(rnd) if p["kind"] not in ("var_args", "var_kwargs", "dep")]
            fn, calls = build_signature_fn(spec, name=f"e{i}")
            r.actor(name=f"e{i}")(fn)
            all_defaults = all(p["has_default"] for p in spec)
            mode = rnd.choice(["noargs", "exact", "missing"])
            from rv.actors import SAMPLE

            exact = {p["name"]: rnd.choice(SAMPLE[p["anno"]]) for p in spec}
            req = [p["name"] for p in spec if not p["has_default"]]
            if mode == "noargs":
                args = None
                expect_run = all_defaults
            elif mode == "exact":
                args = exact
                expect_run = True
            else:
                if not req:
                    args, expect_run = exact, True
                else:
                    args = {k: v for k, v in exact.items() if k != req[0]}
                    expect_run = False
            await Job(f"e{i}", id_=f"j{i}", args=args, store_result=False, _connection=conn).enqueue()
            plans.append((i, spec, mode, args, expect_run, calls))
        # catch-all actors under BasicConverter: an argument-less job brings nothing, whichever way arguments travel
        from repid.converter import BasicConverter
        from repid.router import RouterDefaults

        rb = Router(defaults=RouterDefaults(converter=BasicConverter))
        catch_calls = []

        async def catch_all(*rest, **extras):
            catch_calls.append(("catch_all", rest, extras))

        async def catch_mixed(a: int = 1, *rest, b: int = 2, **extras):
            catch_calls.append(("catch_mixed", (a, b) + rest, extras))

        rest_calls = []

        async def catch_rest(*rest):
            # (no named parameter in front: `f(a, *rest)` with extra entries is the known BasicConverter finding)
            rest_calls.append(rest)

        rb.actor(name="catch_all")(catch_all)
        rb.actor(name="catch_mixed")(catch_mixed)
        rb.actor(name="catch_rest")(catch_rest)
        # parameter names an application is free to choose, that happen to be words the framework uses itself
        named_calls = []

        async def render(template, context, timeout=10.0, *, fn=None, dependencies=(), actor="x", message=None, key=None, payload=None, parameters=None, connection=None, result=None, name=None, queue=None):
            named_calls.append(("render", dict(template=template, context=context, timeout=timeout, fn=fn, dependencies=dependencies, actor=actor, message=message, key=key, payload=payload, parameters=parameters,
                                                connection=connection, result=result, name=name, queue=queue)))

        async def render_kw(template, **options):
            named_calls.append(("render_kw", dict(template=template, **options)))

        WORDS = {"template": "t.html", "context": {"user": "u"}, "timeout": 2.5, "fn": "f", "dependencies": ["d"], "actor": "a", "message": "m", "key": "k", "payload": "p", "parameters": {"x": 1}, "connection": "c",
                 "result": "r", "name": "n", "queue": "q"}
        named_jobs = []
        for ri_, (rt_, lab_) in enumerate(((r, "default"), (rb, "basic"))):
            rt_.actor(name=f"render_{lab_}")(render)
            if lab_ == "basic":
                rt_.actor(name=f"render_kw_{lab_}")(render_kw)  # (catch-alls are a BasicConverter feature)
            for aname in ((f"render_{lab_}", f"render_kw_{lab_}") if lab_ == "basic" else (f"render_{lab_}",)):
                named_jobs.append((aname, dict(WORDS)))
                await Job(aname, id_=f"named-{aname}", args=dict(WORDS), store_result=False, _connection=conn).enqueue()
        # one actor, several jobs in a row: what one job's payload carried is not there for the next one
        seq_calls = []

        async def tagger(doc="none", *rest, lang="en", **tags):
            seq_calls.append((doc, rest, lang, dict(tags)))

        rb.actor(name="tagger")(tagger)
        seq_jobs = [({"colour": "red", "size": 3}, ("none", (), "en", {"colour": "red", "size": 3})), ({}, ("none", (), "en", {})), ({"doc": "d2"}, ("d2", (), "en", {})),
                    ({"shape": "round"}, ("none", (), "en", {"shape": "round"})), ({"lang": "de"}, ("none", (), "de", {})), (None, ("none", (), "en", {}))]
        for si, (sa, _w) in enumerate(seq_jobs):
            await Job("tagger", id_=f"seq{si}", args=sa, store_result=False, _connection=conn).enqueue()
        # entries without a parameter of their name go to *rest in the order the producer wrote them (dicts and dataclasses
        # alike): not alphabetical here
        import dataclasses as _dc

        @_dc.dataclass
        class Box:
            width: int
            height: int
            depth: int

        rest_jobs = [({"width": 3, "height": 4, "depth": 5}, (3, 4, 5)), ({"zeta": "z", "alpha": "a", "mid": "m"}, ("z", "a", "m")), (Box(3, 4, 5), (3, 4, 5))]
        for ri, (ra, _want) in enumerate(rest_jobs):
            await Job("catch_rest", id_=f"rest{ri}", args=ra, store_result=False, _connection=conn).enqueue()
        n_catch = 0
        for name in ("catch_all", "catch_mixed"):
            for kw in ({}, {"use_args_bucketer": False}, {"args": {}}):
                await Job(name, id_=f"k{n_catch}", store_result=False, _connection=conn, **kw).enqueue()
                n_catch += 1
        # a two-step pipeline whose steps share one argument bucket id (rewritten between the steps, by the first step itself)
        from rv.actors import register_bucket_chain_actor

        chain_calls = {}
        for cname, rt in (("chain_default", r), ("chain_basic", rb)):
            chain_calls[cname] = []
            register_bucket_chain_actor(rt, cname, conn, chain_calls[cname], f"{cname}-args")
            await Job(cname, id_=f"{cname}-1", args={"step": 1, "note": "first", "extra": 7}, args_id=f"{cname}-args", use_args_bucketer=True, store_result=False, _connection=conn).enqueue()
        w = Worker(routers=[r, rb], messages_limit=len(plans) + n_catch + 4 + len(rest_jobs) + len(named_jobs) + len(seq_jobs), tasks_limit=1, handle_signals=[], _connection=conn)
        try:
            await asyncio.wait_for(w.run(), 60)
        except asyncio.TimeoutError:
            pass  # (judged below: whoever did not run shows up there)
        for cname, calls_ in chain_calls.items():
            stats["bindings_judged"] += 2
            stats["rewritten_bucket_steps"] += 1
            want = [{"step": 1, "note": "first", "extra": 7}, {"step": 2, "note": "none", "extra": None}]
            if calls_ != want:
                out.append(V("bound_wrong" if len(calls_) == 2 else "spurious_failure", f"{cname.split('_')[1]}/rewritten-argument-bucket", f"two steps sharing the argument bucket id {cname}-args (rewritten by step 1): called with {calls_}, expected {want}"))
        stats["bindings_judged"] += len(seq_jobs)
        stats["consecutive_jobs_of_one_catch_all_actor"] += len(seq_jobs)
        if seq_calls != [w_ for _a, w_ in seq_jobs]:
            first_bad = next((i for i, (g, (_a, w_)) in enumerate(zip(seq_calls, seq_jobs)) if g != w_), len(seq_calls))
            out.append(V("extras_misplaced" if len(seq_calls) == len(seq_jobs) else "spurious_failure", "basic/consecutive-jobs", f"jobs {[a for a, _w in seq_jobs]} for f(doc='none', *rest, lang='en', **tags), one after another through one "
                         f"worker: job #{first_bad} was called with {seq_calls[first_bad] if first_bad < len(seq_calls) else '<not run>'}, expected {seq_jobs[first_bad][1] if first_bad < len(seq_jobs) else '-'}"))
        stats["bindings_judged"] += len(named_jobs)
        stats["jobs_whose_parameter_names_are_framework_words"] += len(named_jobs)
        if len(named_calls) != len(named_jobs) or any(got != WORDS for _n, got in named_calls):
            bad = [(n_, {k: v for k, v in got.items() if WORDS.get(k) != v}) for n_, got in named_calls if got != WORDS]
            out.append(V("spurious_failure" if len(named_calls) != len(named_jobs) else "bound_wrong", "named-like-framework-words", f"actors with parameters named {sorted(WORDS)} (explicit, and through **options) and a job "
                         f"carrying all of them: {len(named_calls)} of {len(named_jobs)} ran ({[n_ for n_, _g in named_calls]}); wrong bindings {bad[:2]}"))
        stats["bindings_judged"] += len(rest_jobs)
        stats["positional_catch_all_jobs"] += len(rest_jobs)
        if rest_calls != [w_ for _a, w_ in rest_jobs]:
            out.append(V("extras_misplaced", "basic/var_args-order", f"jobs for f(*rest) with entries {[(_a if isinstance(_a, dict) else 'Box(3, 4, 5)') for _a, _w in rest_jobs]}: called with {rest_calls}, expected {[w_ for _a, w_ in rest_jobs]}"))
        stats["catch_all_noargs_jobs"] += n_catch
        if len(catch_calls) != n_catch:
            out.append(V("spurious_failure", "basic/noargs/catch-all", f"{n_catch} argument-less jobs for catch-all actors, {len(catch_calls)} executions"))
        for name, pos, extras in catch_calls:
            stats["bindings_judged"] += 1
            want_pos = () if name == "catch_all" else (1, 2)
            if pos != want_pos or extras:
                out.append(V("extras_misplaced", "basic/noargs/catch-all", f"{name} enqueued without arguments was called with positional {pos!r} and extras {extras!r}"))
        for i, spec, mode, args, expect_run, calls in plans:
            stats["e2e_default_converter"] += 1
            stats["bindings_judged"] += 1
            fps.add(f"e2e/{shape(spec)}/{mode}")
            ctx = f"default/{mode}"
            if expect_run and not calls:
                out.append(V("spurious_failure", ctx, f"actor ({shape(spec)}) with job args {args!r}: never ran (default converter); final place {rig.snapshot().get(f'j{i}')}"))
            elif not expect_run and calls:
                out.append(V("made_up_value", ctx, f"actor ({shape(spec)}) with job args {args!r}: ran with {calls[0]}"))
            elif calls:
                a, kw = calls[0]
                ba = inspect.signature(r.actors[f"e{i}"].fn).bind(*a, **kw)
                ba.apply_defaults()
                ref = reference_bind(spec, args)
                if ref[0] == "ok" and dict(ba.arguments) != ref[1]:
                    out.append(V("bound_wrong", ctx, f"actor ({shape(spec)}) args {args!r}: called with {dict(ba.arguments)}, expected {ref[1]}"))
        await conn.disconnect()
    finally:
        rig.close()


def run_case(case):
    from rv.sim import loop as vl

    stats = collections.Counter()
    out, fps, samples = [], set(), []
    if case["type"] == "sigs":
        sigs_case(case, out, stats, fps, samples)
    elif case["type"] == "outputs":
        outputs_case(case, out, stats, fps)
    else:
        res = vl.run(lambda loop: e2e(loop, case, out, stats, fps), max_steps=2_000_000, seed=case["seed"])
        if res.exc is not None:
            out.append(V("harness_or_api_error", "e2e", f"{type(res.exc).__name__}: {res.exc}"))
    seen, vv = set(), []
    for v in out:
        if (v["rule"], v["context"]) not in seen:
            seen.add((v["rule"], v["context"]))
            vv.append(v)
    r = {"fp": None, "fps": sorted(fps), "viol": vv[:10], "stats": dict(stats)}
    if samples:
        r["sample"] = samples[0]
    return r

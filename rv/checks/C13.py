"""C13 - the stored result is the outcome of the latest execution.

Result-storing jobs (values, exceptions, timeouts, retry chains, recurring, eager responses with set_result /
set_exception) run through a real Worker; the monitor compares the bucket under each result id with a model of the
latest execution. Then the same scenario is re-run once per result-store call with that call failing: message
dispositions and final places must be identical to the fault-free run and every other job must still be processed.
"""
from __future__ import annotations

import asyncio
import collections
import json
import random
from datetime import timedelta

LEVEL = "fault_enumeration"
RULE = ("scenarios of 5-9 result-storing jobs (return values: JSON, None, large, nested; exceptions; timeout; retry chains <= 3; recurring; "
        "eager ack/nack/retry with set_result/set_exception; result ids and ttls; store_result off) on mem and redis bucket brokers; baseline "
        "run judged by the bucket model, then one re-run per store_bucket call of the baseline with exactly that call raising; evaluation = "
        "one execution's bucket judged (baseline) or one (scenario, faulty call) pair; fingerprint = (bucket broker, job kind, chain, fault index); "
        "trivial = store_result off")
ASSUMPTIONS = ["in-memory message broker; result bucket broker in-memory or the real RedisBucketBroker over the fake Redis", "virtual time",
               "a store fault is a ConnectionError raised by the bucket broker's store_bucket"]
EVAL_COUNTER = "buckets_or_faults_judged"
REQUIRED = ["buckets_or_faults_judged", "buckets_judged", "fault_runs", "chains_overwritten", "eager_buckets", "disabled_checked", "unencodable_return_buckets", "undescribable_failures", "late_read_polls", "timezone_offset_runs", "runs_over_redis", "runs_over_rabbit", "result_store_writes_attributed"]
CASE_TIMEOUT = 150

KINDS = ["value", "none", "large", "exc", "timeout", "chain2", "chain3_fail", "recurring", "eager_ack_res", "eager_nack_exc", "eager_retry_res", "eager_ack_two_sets", "eager_exc_then_res", "eager_res_exc_res", "disabled", "disabled_eager", "badret", "badret_chain", "exc_unprintable", "chain_ttl"]


def gen_cases(tier, seed):
    rnd = random.Random(seed)
    n = {"quick": 10, "thorough": 120}[tier]
    cases = []
    order = list(KINDS)
    rnd.shuffle(order)
    for i in range(n):
        ks = rnd.sample(KINDS, rnd.randint(5, 9))
        # every kind occurs in every tier: two slots of each case walk through the (shuffled) list
        for slot in (0, 1):
            forced = order[(2 * i + slot) % len(order)]
            if forced not in ks:
                ks[slot] = forced
        cases.append({"bucket": rnd.choice(["mem", "redis"]), "kinds": ks, "seed": rnd.randrange(10**6), "tl": rnd.choice([1, 3, 1000]), "mkind": ["mem", "mem", "redis", "rabbit"][i % 4]})
    # the same on machines whose local time is behind / ahead of UTC (bucket timestamps are naive local datetimes, the Redis
    # store is told an absolute expiry time)
    for i, tz in enumerate(("PST8", "JST-9", "EST5", "IST-5:30") if tier == "thorough" else ("PST8", "JST-9")):
        ks = [order[(3 * i + j) % len(order)] for j in range(6)]
        cases.append({"bucket": "redis" if i % 2 == 0 or tier == "quick" else "mem", "kinds": ks, "seed": rnd.randrange(10**6), "tl": 3, "tz": tz, "fault_limit": 3})
    return cases


def V(rule, ctx, detail, broker="mem"):
    return {"rule": rule, "broker": broker, "context": ctx, "detail": detail}


def plan_job(kind, i, rnd):
    """-> (script, job kwargs, expected final bucket {success, data, exception} | None, expected number of executions)"""
    big = {"blob": "x" * 20000, "n": list(range(50))}
    # (text a real application produces: non-ASCII, a file name decoded with surrogateescape, separators, NUL)
    val = rnd.choice([{"a": 1, "b": [1, 2, {"c": None}]}, [1, "two", 3.5], "text", 7, True, "ünïcødé 😀", "name-\udcff.bin", {"k\u2028": "v\x00", "s": "\ud800"}])
    bad = rnd.choice(["missing-thing", "missing-\udcff", "нет {0}", "x\u2029y"])
    kw = {"store_result": True, "retries": 0, "result_ttl": rnd.choice([timedelta(days=1), timedelta(seconds=90), None])}
    kw["result_id"] = f"rid-{i}-{rnd.randrange(10**6)}" if rnd.random() < 0.5 else f"res-j{i:02d}"
    enc = lambda v: json.dumps(v, separators=(",", ":"))  # noqa: E731  (BasicConverter / JSON_ENCODER form)
    if kind == "value":
        return {"do": "ok", "ret": val}, kw, {"success": True, "data": enc(val), "exception": None}, 1
    if kind == "none":
        return {"do": "ok", "ret": None}, kw, {"success": True, "data": "null", "exception": None}, 1
    if kind == "large":
        return {"do": "ok", "ret": big}, kw, {"success": True, "data": enc(big), "exception": None}, 1
    if kind == "exc":
        et = rnd.choice(["KeyError", "KeyError", "EmptyErrors", "QuietError"])  # (the last two: exception instances that are falsy)
        return {"do": "raise", "exc": et, "msg": bad}, kw, {"success": False, "data": repr(bad) if et == "KeyError" else bad, "exception": et}, 1
    if kind == "badret":
        # the actor returns normally a value its converter cannot encode: the bucket records the failed execution
        what = rnd.choice(["set", "bytes", "object"])
        return {"do": "badret", "what": what}, kw, {"success": False, "data": f"Object of type {what} is not JSON serializable", "exception": "TypeError"}, 1
    if kind == "badret_chain":
        kw["retries"] = 1
        return {"by_attempt": [{"do": "badret", "what": "set"}, {"do": "ok", "ret": val}]}, kw, {"success": True, "data": enc(val), "exception": None}, 2
    if kind == "chain_ttl":
        # two attempts 0.3 s apart, results kept for 3 s: between the first attempt's expiry and the second's, the second
        # attempt's outcome is what a reader gets
        kw["retries"] = 1
        kw["result_ttl"] = timedelta(seconds=3)
        return {"by_attempt": [{"do": "raise", "exc": "ValueError", "msg": "first"}, {"do": "ok", "ret": val}]}, kw, "late-read", 2
    if kind == "exc_unprintable":
        # the failure cannot even be described: whatever becomes of the bucket, the message is dead-lettered like any failed one
        return {"do": "raise", "exc": "Unprintable", "msg": "x"}, kw, "any", 1
    if kind == "timeout":
        return {"do": "ok", "d": 3.0}, kw, {"success": False, "data": "", "exception": "TimeoutError"}, 1
    if kind == "chain2":
        kw["retries"] = 2
        return {"by_attempt": [{"do": "raise", "exc": "ValueError", "msg": "first"}, {"do": "ok", "ret": val}]}, kw, {"success": True, "data": enc(val), "exception": None}, 2
    if kind == "chain3_fail":
        kw["retries"] = 2
        return {"by_attempt": [{"do": "raise", "exc": "ValueError", "msg": "e0"}, {"do": "raise", "exc": "RuntimeError", "msg": "e1"}, {"do": "raise", "exc": "KeyError", "msg": "e2"}]}, kw, {"success": False, "data": "'e2'", "exception": "KeyError"}, 3
    if kind == "recurring":
        kw["deferred_by"] = timedelta(seconds=2.0)
        return {"by_iter": [{"do": "ok", "ret": "it1"}, {"do": "raise", "exc": "ValueError", "msg": "it2"}, {"do": "ok", "ret": "it3"}, {"do": "ok", "ret": "later"}]}, kw, None, None
    if kind == "eager_ack_res":
        return {"do": "eager", "action": "ack", "pre": [["set_result", val]]}, kw, {"success": True, "data": enc(val), "exception": None}, 1
    if kind == "eager_nack_exc":
        return {"do": "eager", "action": "nack", "pre": [["set_exception", "KeyError", "eager-bad"]]}, kw, {"success": False, "data": "'eager-bad'", "exception": "KeyError"}, 1
    if kind == "eager_retry_res":
        kw["retries"] = 1
        return {"by_attempt": [{"do": "eager", "action": "retry", "next": 0.3, "pre": [["set_result", "try-again"]]}, {"do": "ok", "ret": val}]}, kw, {"success": True, "data": enc(val), "exception": None}, 2
    if kind == "eager_ack_two_sets":
        return {"do": "eager", "action": "ack", "pre": [["set_result", "first"], ["callback", "c1-sync"], ["set_exception", "ValueError", "second"]]}, kw, {"success": False, "data": "second", "exception": "ValueError"}, 1
    if kind == "eager_exc_then_res":
        # the last word counts, in either order
        act = rnd.choice(["ack", "nack", "reject"])
        return {"do": "eager", "action": act, "pre": [["set_exception", "ValueError", "primary failed"], ["callback", "c1-sync"], ["set_result", val]], "then": {"do": "ok", "ret": val}}, kw, {"success": True, "data": enc(val), "exception": None}, (2 if act == "reject" else 1)
    if kind == "eager_res_exc_res":
        return {"do": "eager", "action": "ack", "pre": [["set_result", "first"], ["set_exception", "KeyError", "mid"], ["set_result", val]]}, kw, {"success": True, "data": enc(val), "exception": None}, 1
    if kind == "disabled":
        kw["store_result"] = False
        return {"do": "ok", "ret": val}, kw, "absent", 1
    if kind == "disabled_eager":
        kw["store_result"] = False
        return {"do": "eager", "action": "ack", "pre": []}, kw, "absent", 1
    raise AssertionError(kind)


async def scenario(loop, case, fault_at, info):
    """Runs the scenario; fault_at: index of the store_bucket call that raises (None: none)."""
    from rv.wl import World, run_worker

    rnd = random.Random(case["seed"])
    # (the message broker matters too: Redis and RabbitMQ carry the parameters - "keep the result or not" among them - as text)
    w = World(loop, case.get("mkind", "mem"), converter="basic", seed=case["seed"], bucket_kind=case["bucket"], latency=None)
    try:
        rb = w.conn.results_bucket_broker
        counter = {"n": 0}
        # fault injection between the middleware wrapper and the (recorded) broker method
        mw = rb.store_bucket
        orig_fn = mw.fn

        async def faulty(*a, **kw):
            k = counter["n"]
            counter["n"] += 1
            if fault_at is not None and k == fault_at:
                raise ConnectionError("result bucket broker is down (injected)")
            return await orig_fn(*a, **kw)

        mw.fn = faulty
        try:
            await w.open()
            r = w.router(retry_policy=lambda retry_number=1: timedelta(seconds=0.3))
            w.scripted_actor(r, "act")
            await w.conn.message_broker.queue_declare("default")
            plans = {}
            jobs = {}
            for i, kind in enumerate(case["kinds"]):
                script, kw, exp, nexec = plan_job(kind, i, rnd)
                if case.get("tz") and kw.get("result_ttl") in (None, timedelta(days=1)) and kw.get("store_result"):
                    kw["result_ttl"] = timedelta(seconds=90)  # (shorter than any UTC offset used here)
                id_ = f"j{i:02d}"
                job = w.job("act", id_, script, timeout=timedelta(seconds=1), **kw)
                await job.enqueue()
                plans[id_] = {"kind": kind, "exp": exp, "nexec": nexec, "rid": job.result_id, "ttl": kw.get("result_ttl"), "store": kw["store_result"]}
                jobs[id_] = job
            worker = w.worker([r], tasks_limit=case["tl"], graceful_shutdown_time=6.0, handle_signals=[__import__("signal").SIGUSR1])
            polled = {"n": 0}
            timeline = {}

            async def poll_results():
                # a producer that keeps asking the SAME Job objects for their result while the chain is still going on
                while True:
                    for jid, j in jobs.items():
                        try:
                            rb_ = await j.result
                            if rb_ is not None:
                                polled["n"] += 1
                            timeline.setdefault(jid, []).append((loop.time(), None if rb_ is None else bool(rb_.success)))
                        except Exception:  # noqa: BLE001
                            pass
                    await asyncio.sleep(0.2)

            poller = loop.create_task(poll_results())
            res = await run_worker(w, worker, horizon=9.5, poll=0.25)
            await asyncio.sleep(0.3)
            poller.cancel()
            try:
                await poller
            except BaseException:  # noqa: BLE001
                pass
            info["polled_results"] = polled["n"]
            info["timeline"] = timeline
            info["store_times"] = [(e["id"], e["t"]) for e in w.log.events if e.get("k") == "ret" and e.get("op") == "store_bucket" and str(e.get("who", "")).endswith("/rb")]
            info["worker"] = res
            info["plans"] = plans
            info["dispositions"] = {id_: [(e["op"], (e.get("params") or {}).get("tried")) for e in w.dispositions(id_)] for id_ in plans}
            info["places"] = {id_: w.rig.snapshot().get(id_, []) for id_ in plans}
            info["starts"] = {id_: len(w.events("actor_start", id_)) for id_ in plans}
            info["store_calls"] = [(e["id"], e["bucket"]) for e in w.log.events if e.get("k") == "call" and e.get("op") == "store_bucket" and str(e.get("who", "")).endswith("/rb")]
            info["n_store_attempts"] = counter["n"]
            info["buckets"] = {}
            info["job_result"] = {}
            for id_, p in plans.items():
                try:
                    b = await jobs[id_].result
                except Exception as exc:  # noqa: BLE001
                    b = f"<raised {exc!r}>"
                info["job_result"][id_] = b
            info["exec_log"] = {id_: [(e["k"], e.get("attempt"), e.get("iteration")) for e in w.log.events if e.get("id") == id_ and e["k"] in ("actor_start", "actor_end", "actor_raise", "actor_eager")] for id_ in plans}
            info["unknown"] = w.rig.unknown_commands()
        finally:
            mw.fn = orig_fn
    finally:
        await w.close()


def judge_baseline(case, info, out, stats, fps):
    bk = case["bucket"]
    # every write to the result store belongs to a job that asked for its result
    known = {p["rid"] for p in info["plans"].values() if p["store"]}
    strays = [c for c in info["store_calls"] if c[0] not in known]
    stats["result_store_writes_attributed"] += len(info["store_calls"])
    stats["runs_over_" + case.get("mkind", "mem")] += 1
    if strays:
        out.append(V("written_when_disabled", "unasked-for-bucket", f"{len(strays)} write(s) to the result store under ids no job asked for: {[c[0] for c in strays][:3]} "
                                                                    f"(jobs with results disabled: {[i for i, p in info['plans'].items() if not p['store']]}; message broker {case.get('mkind', 'mem')})", bk))
    for id_, p in info["plans"].items():
        kind, exp = p["kind"], p["exp"]
        b = info["job_result"][id_]
        ctx = kind
        stats["buckets_or_faults_judged"] += 1
        if exp == "any":
            # only the disposition is specified: one failed execution without retries = dead-lettered, executed once
            stats["undescribable_failures"] += 1
            d = [op for op, _pl in info["dispositions"].get(id_, [])]
            if d != ["nack"] or info["places"].get(id_) != ["dead"] or info["starts"].get(id_) != 1:
                out.append(V("disposition_changed_by_store_fault", "unprintable-exception/own-message", f"{id_}: an actor failure whose text cannot be produced: dispositions {d}, final place {info['places'].get(id_)}, executions {info['starts'].get(id_)} (expected one nack, dead-lettered, one execution)", bk))
            continue
        if exp == "late-read":
            ts_ = [t for rid, t in info["store_times"] if rid == p["rid"]]
            stats["late_reads_judged"] += 1
            if len(ts_) != 2:
                out.append(V("stale_bucket", "chain_ttl/store-count", f"{id_}: {len(ts_)} stores for 2 executions", bk))
                continue
            # (the Redis store expires keys at whole seconds - the client truncates the absolute expiry time - so the last
            # second of a bucket's life is not demanded of it; C19's stored-bucket probes use the same resolution)
            window = [(t, ok) for t, ok in info["timeline"].get(id_, []) if ts_[1] + 0.01 <= t <= ts_[1] + 3.0 - 0.05 - (1.0 if bk == "redis" else 0.0)]
            late = [(t, ok) for t, ok in window if t > ts_[0] + 3.0]
            stats["late_read_polls"] += len(late)
            bad = [(round(t, 3), ok) for t, ok in window if ok is not True]
            if bad:
                out.append(V("stale_bucket", "chain_ttl/read-after-first-expiry", f"{id_}: attempts stored at +{ts_[0]:.3f} (failure) and +{ts_[1]:.3f} (success), results kept 3 s: a reader got {bad[:3]} (None = nothing) while the second outcome was still alive", bk))
            continue
        if exp == "absent":
            stats["disabled_checked"] += 1
            calls = [c for c in info["store_calls"] if c[0] == p["rid"]]
            if calls or b is not None:
                out.append(V("written_when_disabled", ctx, f"{id_}: store_result=False but store_bucket calls {len(calls)}, Job.result={b!r}", bk))
            continue
        stats["buckets_judged"] += 1
        fps.add(f"{bk}/{kind}/-")
        if isinstance(b, str) or b is None:
            out.append(V("bucket_mismatch", ctx + "/missing", f"{id_} ({kind}): Job.result returned {b!r}; store calls for its id: {[c[1]['success'] for c in info['store_calls'] if c[0] == p['rid']]}", bk))
            continue
        if kind == "recurring":
            # iterations: ok(it1), ValueError(it2) [retries=0 -> exhausted -> rescheduled], ok(it3), ok(later)...: the bucket is the latest finished one
            calls = [c[1] for c in info["store_calls"] if c[0] == p["rid"]]
            if len(calls) >= 2:
                stats["chains_overwritten"] += 1
            last = calls[-1] if calls else None
            if last is None or (b.success, b.data, b.exception) != (last["success"], last["data"], last["exception"]):
                out.append(V("stale_bucket", ctx, f"{id_}: Job.result {b.success, b.data[:40], b.exception} is not the last stored outcome {last and (last['success'], last['data'][:40], last['exception'])}", bk))
            # every finished iteration wrote its outcome (the first one's must not stay there for ever)
            finished = len([x for x in info["exec_log"].get(id_, []) if x[0] in ("actor_end", "actor_raise")])
            if len(calls) < finished - 1:
                out.append(V("stale_bucket", ctx + "/store-count", f"{id_}: {finished} iterations finished, {len(calls)} outcomes were stored (the bucket holds {b.data[:30]!r})", bk))
            seq = [(c["success"], c["data"]) for c in calls[:3]]
            want = [(True, '"it1"'), (False, "it2"), (True, '"it3"')][: len(seq)]
            if seq != want:
                out.append(V("bucket_mismatch", ctx + "/sequence", f"{id_}: stored outcomes per iteration {seq}, expected {want}", bk))
            continue
        got = {"success": b.success, "data": b.data, "exception": b.exception}
        for f in ("success", "data", "exception"):
            same = got[f] == exp[f]
            if not same and f == "data" and exp["success"]:
                # the stored text is an encoding of the returned value: what counts is what it decodes to
                try:
                    same = json.loads(got[f]) == json.loads(exp[f])
                except Exception:  # noqa: BLE001
                    same = False
            if not same:
                out.append(V("bucket_mismatch", f"{ctx}.{f}", f"{id_} ({kind}): bucket {f}={str(got[f])[:80]!r}, expected {str(exp[f])[:80]!r}", bk))
        if not (b.started_when <= b.finished_when):
            out.append(V("bucket_mismatch", ctx + ".times", f"{id_}: started_when {b.started_when} > finished_when {b.finished_when}", bk))
        if b.ttl != p["ttl"]:
            out.append(V("bucket_mismatch", ctx + ".ttl", f"{id_}: bucket ttl {b.ttl}, configured {p['ttl']}", bk))
        if p["nexec"] and p["nexec"] > 1:
            stats["chains_overwritten"] += 1
            n = len([c for c in info["store_calls"] if c[0] == p["rid"]])
            if n != p["nexec"]:
                out.append(V("stale_bucket", ctx + "/store-count", f"{id_} ({kind}): {n} store calls for {p['nexec']} executions", bk))
        if kind.startswith("badret"):
            stats["unencodable_return_buckets"] += 1
        if kind.startswith("eager"):
            stats["eager_buckets"] += 1
        if info["starts"][id_] != p["nexec"]:
            out.append(V("bucket_mismatch", ctx + "/executions", f"{id_} ({kind}): {info['starts'][id_]} executions, expected {p['nexec']}", bk))


def run_case(case):
    import os
    import time as _time

    if not case.get("tz"):
        return _run_case(case)
    old_tz = os.environ.get("TZ")
    os.environ["TZ"] = case["tz"]
    _time.tzset()
    try:
        r = _run_case(case)
        r.setdefault("stats", {})["timezone_offset_runs"] = r["stats"].get("timezone_offset_runs", 0) + 1
        return r
    finally:
        if old_tz is None:
            os.environ.pop("TZ", None)
        else:
            os.environ["TZ"] = old_tz
        _time.tzset()


def _run_case(case):
    from rv.sim import loop as vl

    stats = collections.Counter()
    out, fps = [], set()
    base = {}
    res = vl.run(lambda loop: scenario(loop, case, None, base), max_steps=4_000_000, seed=case["seed"])
    if res.exc is not None or "plans" not in base:
        return {"fp": None, "viol": [V("harness_or_api_error", "baseline", f"{type(res.exc).__name__}: {res.exc}", case["bucket"])], "stats": dict(stats)}
    if base.get("unknown"):
        return {"fp": None, "viol": [], "stats": dict(stats), "inconclusive": "fake server saw unknown commands"}
    if base["worker"]["exc"] is not None or not base["worker"]["returned"]:
        out.append(V("worker_stopped_by_store_fault", "baseline", f"worker: {base['worker']}", case["bucket"]))
    # (an actor failure whose own text cannot be produced surfaces once more when the outcome is written down, after the
    # disposition: the per-message task ends with that error; only the disposition is this property's subject)
    loop_reports = [x for x in res.exc_log if "no printable form" not in str(x.get("exception"))]
    if loop_reports:
        out.append(V("inv:loop", "baseline", f"event loop reported {loop_reports[:2]}", case["bucket"]))
    judge_baseline(case, base, out, stats, fps)
    # ---- one run per store call, with that call failing
    n = base["n_store_attempts"]
    sample = {"bucket_broker": case["bucket"], "kinds": case["kinds"], "store_calls_in_baseline": n, "baseline_dispositions": {k: v for k, v in list(base["dispositions"].items())[:4]}}
    for k in range(min(n, case.get("fault_limit", n))):
        info = {}
        r2 = vl.run(lambda loop: scenario(loop, case, k, info), max_steps=4_000_000, seed=case["seed"])
        stats["fault_runs"] += 1
        stats["buckets_or_faults_judged"] += 1
        which = base["store_calls"][k][0] if k < len(base["store_calls"]) else "?"
        kind = next((p["kind"] for p in base["plans"].values() if p["rid"] == which), "?")
        fps.add(f"{case['bucket']}/{kind}/fault@{k}")
        ctx = f"{kind}"
        if r2.exc is not None or "plans" not in info:
            out.append(V("worker_stopped_by_store_fault", ctx, f"store call #{k} (result of a {kind} job) failing: scenario died with {type(r2.exc).__name__}: {r2.exc}", case["bucket"]))
            continue
        if info["worker"]["exc"] is not None or not info["worker"]["returned"]:
            out.append(V("worker_stopped_by_store_fault", ctx, f"store call #{k} failing: Worker.run {info['worker']}", case["bucket"]))
        for id_ in base["plans"]:
            if info["dispositions"][id_] != base["dispositions"][id_] or info["places"][id_] != base["places"][id_]:
                own = base["plans"][id_]["rid"] == which
                out.append(V("disposition_changed_by_store_fault", ctx + ("/own-message" if own else "/other-message"),
                             f"store call #{k} (for {which}, a {kind} job) failing: {id_} dispositions {info['dispositions'][id_]} place {info['places'][id_]}; fault-free run: {base['dispositions'][id_]} place {base['places'][id_]}", case["bucket"]))
                break
            if info["starts"][id_] != base["starts"][id_]:
                out.append(V("disposition_changed_by_store_fault", ctx + "/executions", f"store call #{k} failing: {id_} executed {info['starts'][id_]} times, fault-free {base['starts'][id_]}", case["bucket"]))
                break
        # buckets of the other jobs are unaffected
        for id_, p in base["plans"].items():
            if p["rid"] == which or p["exp"] in ("absent", None):
                continue
            b0, b1 = base["job_result"][id_], info["job_result"][id_]
            t0 = None if b0 is None or isinstance(b0, str) else (b0.success, b0.data, b0.exception)
            t1 = None if b1 is None or isinstance(b1, str) else (b1.success, b1.data, b1.exception)
            if t0 != t1:
                out.append(V("bucket_mismatch", ctx + "/other-bucket-under-fault", f"store call #{k} failing changed the bucket of {id_}: {t1} vs {t0}", case["bucket"]))
                break
    seen, vv = set(), []
    for v in out:
        if (v["rule"], v["context"]) not in seen:
            seen.add((v["rule"], v["context"]))
            vv.append(v)
    r = {"fp": None, "fps": sorted(fps), "viol": vv[:8], "stats": dict(stats)}
    if case["cid"] % 3 == 0:
        r["sample"] = sample
    return r

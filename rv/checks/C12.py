"""C12 - expired messages are never executed; live ones are never dropped.

Jobs with a time-to-live are delivered to a real Worker at instants placed exactly around the expiry E = timestamp + ttl
(virtual clock), for immediate, delayed, retried and rescheduled messages. A per-iteration state probe gives the exact
virtual instant at which a message first appears dead-lettered; the monitor checks: executed => start <= E (+ wire
allowance); dead-lettered without a failed execution => dead-lettering instant > E; every dead-lettered message is
retrievable through a DEAD-category consumer.
"""
from __future__ import annotations

import asyncio
import collections
import random
from datetime import datetime, timedelta

LEVEL = "exploration"
RULE = ("ttl {1,1.5,4,3600,none} x delivery instant {E-1s,E-1us,E,E+1us,E+1s} x kind {immediate, delayed T<E, delayed T>E, "
        "retry back-off crossing E, late first attempt + back-off crossing E within one ttl of the retry, retry inside E, recurring (clock restarted)} x broker; evaluation = one message judged; "
        "fingerprint = (broker, ttl, instant class, kind, latency); trivial = none")
ASSUMPTIONS = ["Redis and RabbitMQ are wire-level fakes", "virtual time; exact instants only at zero wire latency (redis polls priorities with 0.1 s sleeps, so its instants are approximate; the oracle uses the observed instants)",
               "with wire latency l the execution allowance after E is 2l + 0.35 s"]
EVAL_COUNTER = "messages_judged"
REQUIRED = ["messages_judged", "executed_live", "dead_lettered_expired", "dead_retrieved", "boundary_exact", "kind_retry_cross", "kind_retry_late", "kind_resched", "priority_high", "priority_low", "timezone_offset_runs", "arrivals_at_a_waiting_consumer", "mixed_queue_messages", "revived_messages_judged", "expired_next_to_a_running_twin", "messages_stamped_in_another_time_zone"]
CASE_TIMEOUT = 120

TTLS = [1.0, 1.5, 4.0, 3600.0, 90000.0, 172800.0, None]
DELTAS = [-1.0, -0.000001, 0.0, 0.000001, 1.0]
LATE_DELTAS = [83100.0, 86400.0, 259200.0 + 7.0]  # a day (or three) after the expiry: arithmetic on days, not only seconds
KINDS = ["immediate", "delayed_before", "delayed_after", "retry_cross", "retry_inside", "retry_late", "resched"]


def gen_cases(tier, seed):
    rnd = random.Random(seed)
    cases = []
    for broker in ("mem", "redis", "rabbit"):
        items = []
        for ttl in TTLS:
            for kind in KINDS:
                if ttl is None and kind in ("delayed_after", "retry_cross", "retry_late"):
                    continue
                ds = (DELTAS + (LATE_DELTAS if kind == "immediate" else [])) if kind in ("immediate", "delayed_before") else [0.0]
                if ttl is None:
                    ds = [0.0]
                for d in ds:
                    items.append({"ttl": ttl, "kind": kind, "delta": d})
        lats = [None] if broker == "mem" else [None, 0.004]
        phases = [0.0, 0.25, 0.5, 0.999] if tier == "thorough" else [None]
        for lat in lats:
            for ph in phases:
                for it in items:
                    if tier == "quick" and lat is not None and it["kind"] not in ("immediate", "retry_cross", "retry_late", "resched"):
                        continue
                    cases.append({"broker": broker, "latency": lat, "seed": rnd.randrange(10**6), "phase": ph if ph is not None else rnd.choice([0.0, 0.25, 0.5, 0.999]), **it})
    # the expired (or still live) message reaches a queue whose consumer is ALREADY waiting: a job built earlier and enqueued
    # late, and a message handed back by another holder after its time-to-live ran out in flight
    for broker in ("mem", "redis", "rabbit"):
        for kind in ("late_enqueue", "late_handback"):
            for ttl in (1.0, 1.5):
                for d in ((-0.4, 0.3, 1.2) if tier == "quick" else (-0.4, -0.001, 0.001, 0.3, 1.2, 2.6)):
                    cases.append({"broker": broker, "latency": None if broker == "mem" else 0.004, "seed": rnd.randrange(10**6), "phase": rnd.choice([0.0, 0.25, 0.5, 0.999]),
                                  "ttl": ttl, "kind": kind, "delta": d})
    # expired and live messages side by side in one queue and priority: each is judged on its own time-to-live
    for broker in ("mem", "redis", "rabbit"):
        for i in range(3 if tier == "quick" else 12):
            cases.append({"broker": broker, "kind": "mixed", "ttl": None, "delta": 0.0, "latency": None if broker == "mem" else 0.004, "seed": rnd.randrange(10**6), "phase": 0.0,
                          "n": rnd.choice([3, 5, 9, 14]), "tl": rnd.choice([1, 3, 1000])})
    # dead-lettered for their age, then revived by queue tooling (DEAD category + Message.reschedule(), the cookbook flow): the
    # time-to-live counts from that reschedule - executed when a worker comes in time, dead-lettered again when it does not
    for broker in ("mem", "redis", "rabbit"):
        for wait in ((0.5, 3.5) if tier == "quick" else (0.0, 0.5, 1.9, 2.1, 3.5)):
            cases.append({"broker": broker, "kind": "revive", "ttl": 2.0, "delta": wait, "latency": None if broker == "mem" else 0.004, "seed": rnd.randrange(10**6), "phase": rnd.choice([0.0, 0.25, 0.5, 0.999]), "n": 4})
    # an expired message is found while a live message with the SAME id, topic and priority (the job enqueued twice, the
    # first copy long ago) is being executed: the expired one is dead-lettered, the live one runs and is acknowledged
    for broker in ("mem", "rabbit"):  # (Redis keeps one message per routing key: a second enqueue adds nothing there)
        for i in range(2 if tier == "quick" else 8):
            cases.append({"broker": broker, "kind": "twin_expired", "ttl": 2.0, "delta": 0.0, "latency": None if broker == "mem" else 0.004, "seed": rnd.randrange(10**6), "phase": 0.0, "n": 8})
    # the same property on a machine whose local time is not UTC (timestamps are naive local datetimes)
    for tz in ("AAA-5", "BBB5", "CCC-0:30"):
        for mode in ("live_recurring", "expired_after_reschedule"):
            cases.append({"broker": "mem", "kind": "tz", "tz": tz, "mode": mode, "ttl": None, "delta": 0.0, "latency": None, "seed": rnd.randrange(10**6), "phase": 0.0})
    return cases


def V(rule, kind, ctx, detail):
    return {"rule": rule, "broker": kind, "context": ctx, "detail": detail}


EPOCH = datetime(2040, 1, 1)


def vt(dt):
    return (dt - EPOCH).total_seconds()


async def scenario(loop, case, out, stats, fps, samples):
    from repid.message import MessageCategory
    from rv.wl import World, run_worker

    broker, kind, ttl, delta = case["broker"], case["kind"], case["ttl"], case["delta"]
    lat = case["latency"]
    w = World(loop, broker, converter="basic", seed=case["seed"], latency=lat)
    try:
        await w.open()
        policy = lambda retry_number=1: timedelta(seconds=BACKOFF[0])  # noqa: E731
        BACKOFF = [0.5]
        r = w.router(retry_policy=policy)
        w.scripted_actor(r, "act")
        await w.conn.message_broker.queue_declare("default")
        loop.jump(1.0 + case.get("phase", 0.0))
        t0 = datetime.now()
        ttl_td = timedelta(seconds=ttl) if ttl is not None else None
        from repid import PrioritiesT

        prio = [PrioritiesT.MEDIUM, PrioritiesT.HIGH, PrioritiesT.LOW][case["seed"] % 3]  # dead-lettering keeps the priority
        stats["priority_" + prio.name.lower()] += 1
        kw = dict(ttl=ttl_td, timeout=timedelta(seconds=30), store_result=False, priority=prio)
        script = {"do": "ok"}
        expect = None  # "exec" | "dead" | None (decided by the oracle from observed instants)
        first_delivery_at = None
        if kind == "immediate":
            pass
        elif kind == "delayed_before":
            kw["deferred_until"] = t0 + timedelta(seconds=(ttl or 4.0) / 2)
        elif kind == "delayed_after":
            kw["deferred_until"] = t0 + timedelta(seconds=ttl + 1.0)
            expect = "dead"
        elif kind in ("retry_cross", "retry_inside"):
            kw["retries"] = 1
            script = {"by_attempt": [{"do": "raise"}, {"do": "ok"}]}
            BACKOFF[0] = (ttl + 1.0) if kind == "retry_cross" else min(0.5, (ttl or 1.0) / 4)
        elif kind == "retry_late":
            # first attempt at 0.6 ttl after the scheduling, back-off 0.6 ttl: the redelivery falls after the expiry although
            # less than one ttl has passed since the retry
            kw["retries"] = 1
            script = {"by_attempt": [{"do": "raise"}, {"do": "ok"}]}
            BACKOFF[0] = 0.6 * ttl
        elif kind == "resched":
            kw["deferred_by"] = timedelta(seconds=2.0)
        job = w.job("act", "m1", script, **kw)
        late_task = None
        if kind in ("late_enqueue", "late_handback"):
            E = job.timestamp + ttl_td
            tE = vt(E)
            late_info = {}

            async def late_action():
                # runs next to an idle worker whose consumer is already waiting in consume()
                if kind == "late_handback":
                    other = w.conn.message_broker.get_consumer("default", None, None, MessageCategory.NORMAL)
                    await other.start()
                    await job.enqueue()
                    key, _payload, _params = await asyncio.wait_for(other.consume(), 5.0)
                    late_info["taken"] = loop.time()
                    late_info["start_worker"].set()
                    await asyncio.sleep(max(0.0, tE + delta - loop.time()))
                    late_info["t"] = loop.time()
                    await w.conn.message_broker.reject(key)
                    await other.finish()
                else:
                    late_info["start_worker"].set()
                    await asyncio.sleep(max(0.0, tE + delta - loop.time()))
                    late_info["t"] = loop.time()
                    await job.enqueue()

            late_info["start_worker"] = asyncio.Event()
            late_task = loop.create_task(late_action())
            await asyncio.wait_for(late_info["start_worker"].wait(), 10.0)
        else:
            await job.enqueue()
            E = (job.timestamp + ttl_td) if ttl_td is not None else None
            tE = vt(E) if E is not None else None
        # where the worker is switched on
        if kind in ("immediate", "delayed_before") and ttl is not None:
            await asyncio.sleep(0.01)
            await w.rig.quiesce_wire()
            loop.jump_to(tE + delta)
        if kind == "retry_late":
            await asyncio.sleep(0.01)
            await w.rig.quiesce_wire()
            loop.jump_to(vt(job.timestamp) + 0.6 * ttl)
        first_dead = {}

        def probe(step, _rig=w.rig):
            if "t" in first_dead:
                return
            try:
                if _rig.snapshot().get("m1") == ["dead"]:
                    first_dead["t"] = loop.time()
            except Exception:  # noqa: BLE001
                pass

        loop.step_hook = probe
        worker = w.worker([r], tasks_limit=10, graceful_shutdown_time=3.0, handle_signals=[__import__("signal").SIGUSR1])
        horizon = {"immediate": 2.5, "delayed_before": 6.0, "delayed_after": (ttl or 0) + 4.0, "retry_cross": (ttl or 0) + 5.0,
                   "retry_late": 0.6 * (ttl or 0) + 5.0, "retry_inside": 3.0, "resched": 9.0,
                   "late_enqueue": (ttl or 0) + max(delta, 0) + 3.0, "late_handback": (ttl or 0) + max(delta, 0) + 3.0}[kind]
        if ttl is not None and ttl > 100 and kind == "retry_inside":
            pass
        if ttl is not None and ttl > 100 and kind == "delayed_after":
            horizon = 4.0  # cannot idle for an hour: the clock is stepped past the due time before the worker starts
            await asyncio.sleep(0.5)
            await w.rig.quiesce_wire()
            loop.jump_to(tE + 1.5)
        if ttl is not None and ttl > 100 and kind in ("retry_cross", "retry_late"):
            # first attempt fails now; the process is then suspended (clock step) until the back-off is over
            info0 = await run_worker(w, worker, until=lambda: bool(w.events("actor_raise", "m1")) and bool(w.dispositions("m1")), horizon=4.0, poll=0.1)
            await asyncio.sleep(0.3)
            await w.rig.quiesce_wire()
            loop.jump_to(tE + 1.5 if kind == "retry_cross" else vt(job.timestamp) + 1.2 * ttl + 1.5)
            worker = w.worker([r], tasks_limit=10, graceful_shutdown_time=3.0, handle_signals=[__import__("signal").SIGUSR1])
            horizon = 4.0
        info = await run_worker(w, worker, horizon=horizon, poll=0.25)
        loop.step_hook = None
        if late_task is not None:
            try:
                await asyncio.wait_for(late_task, 5.0)
            except Exception as exc:  # noqa: BLE001
                out.append(V("harness_or_api_error", broker, kind, f"late action failed: {exc!r}"))
        if info["exc"] is not None or not info["returned"]:
            out.append(V("worker_died", broker, "run", f"{info}"))
        await asyncio.sleep(0.3)
        starts = w.events("actor_start", "m1")
        snap = w.rig.snapshot()
        place = snap.get("m1", [])
        allowance = 0.0 if lat is None and broker != "redis" else (2 * (lat or 0) + 0.35)
        ctx = kind
        stats["messages_judged"] += 1
        stats["kind_" + kind] += 1
        if lat is None and abs(delta) < 0.001 and kind in ("immediate", "delayed_before") and ttl is not None:
            stats["boundary_exact"] += 1
        fps.add(f"{broker}/{ttl}/{delta}/{kind}/{lat}/{case.get('phase')}")
        # (1) executed => not expired at the start. The time-to-live counts from the message's latest SCHEDULING: the
        # producer's enqueue, or the reschedule of a recurring job (ground truth: the instant the previous iteration ended);
        # a retry is not a new scheduling. The timestamp the delivered message carries is checked against that, not trusted.
        exits = sorted(e["t"] for e in w.events("actor_exit", "m1") + w.events("actor_raise", "m1"))
        for i, s in enumerate(starts):
            if tE is not None:
                ts = datetime.fromisoformat(s["params_ts"])
                if kind != "resched" or i == 0:
                    e_this = tE
                    if ts != job.timestamp:
                        out.append(V("ttl_clock_moved", broker, ctx, f"delivery {i + 1} of m1 carries timestamp {ts} but it was scheduled at {job.timestamp} (ttl={ttl}s)"))
                else:
                    prev_end = exits[i - 1] if len(exits) >= i else None  # one end per start, in order
                    e_this = (prev_end + ttl + 0.05 + 4 * (lat or 0)) if prev_end is not None else vt(ts + ttl_td)
                    if prev_end is not None and not (prev_end - 1e-6 <= vt(ts) <= prev_end + 0.05 + 4 * (lat or 0)):
                        out.append(V("ttl_clock_moved", broker, ctx, f"iteration {i + 1} of recurring m1 carries timestamp +{vt(ts):.6f} but it was rescheduled at +{prev_end:.6f}"))
                if s["t"] > e_this + allowance + 1e-9:
                    out.append(V("expired_executed", broker, ctx, f"ttl={ttl}s: actor started (delivery {i + 1}) at +{s['t']:.6f}, the message expired at +{e_this:.6f} ({(s['t'] - e_this) * 1e3:.3f} ms earlier)"))
        if starts:
            stats["executed_live"] += 1
        failed = any(True for e in w.events("actor_raise", "m1"))
        # (2) dead-lettered without a failed execution (or after the retry) => it was expired by then
        if place == ["dead"] or "t" in first_dead:
            td = first_dead.get("t")
            if tE is None:
                out.append(V("live_dead_lettered", broker, ctx, f"no ttl, yet dead-lettered at +{td}"))
            elif kind in ("retry_cross", "retry_late"):
                stats["dead_lettered_expired"] += 1  # expected: back-off crossed E
                if len(starts) > 1:
                    pass  # judged by rule (1)
            else:
                e_latest = tE
                if kind == "resched" and starts:
                    e_latest = max(vt(datetime.fromisoformat(s["params_ts"]) + ttl_td) for s in starts)
                if td is not None and td <= e_latest + 1e-9:
                    out.append(V("live_dead_lettered", broker, ctx, f"ttl={ttl}s delta={delta}: dead-lettered at +{td:.6f} although it expires only after +{e_latest:.6f}"))
                else:
                    stats["dead_lettered_expired"] += 1
        # expectations that follow from the scenario itself
        if kind == "delayed_after" and (starts or place != ["dead"]):
            if starts:
                pass  # rule (1) already reported
            else:
                out.append(V("expired_not_dead_lettered", broker, ctx, f"ttl={ttl}s, due 1 s after expiry: message is at {place} {horizon}s later"))
        if kind in ("retry_cross", "retry_late") and place != ["dead"] and len(starts) < 2:
            out.append(V("expired_not_dead_lettered", broker, ctx, f"ttl={ttl}s: the retry became due after the expiry, message is at {place} at the end"))
        if kind == "resched" and ttl is not None and ttl >= 3.0 and len(starts) < 3:
            out.append(V("live_dead_lettered", broker, "resched-iterations", f"recurring every 2 s with ttl={ttl}s: only {len(starts)} iterations ran in {horizon}s; place {place}"))
        if kind == "resched" and ttl is not None and ttl < 2.0:
            # every iteration is due 2 s after its timestamp: expired when due -> dead-lettered, never executed
            if starts:
                pass  # rule (1)
        if kind == "immediate" and tE is not None and delta < -0.5 and not starts:
            out.append(V("live_dead_lettered" if place == ["dead"] else "live_not_delivered", broker, ctx, f"ttl={ttl}s, worker on 1 s before expiry: not executed, place {place}"))
        if kind in ("immediate", "delayed_before") and tE is not None and delta > 0.5 and place != ["dead"] and not starts:
            out.append(V("expired_not_dead_lettered", broker, ctx, f"ttl={ttl}s, worker on 1 s after expiry: place {place}"))
        if kind in ("late_enqueue", "late_handback"):
            stats["arrivals_at_a_waiting_consumer"] += 1
            t_arr = late_info.get("t")
            if t_arr is None:
                out.append(V("harness_or_api_error", broker, kind, "the late action never happened"))
            elif t_arr > tE + allowance + 1e-6 and place != ["dead"] and not starts:
                out.append(V("expired_not_dead_lettered", broker, ctx, f"ttl={ttl}s: reached the queue of a waiting consumer at +{t_arr:.6f}, {t_arr - tE:.6f}s after its expiry: place {place} {horizon}s later"))
            elif t_arr < tE - 0.2 - allowance and not starts:
                out.append(V("live_dead_lettered" if place == ["dead"] else "live_not_delivered", broker, ctx, f"ttl={ttl}s: reached the queue of a waiting consumer at +{t_arr:.6f}, {tE - t_arr:.6f}s before its expiry: never executed, place {place}"))
        if ttl is None and not starts:
            out.append(V("live_not_delivered", broker, ctx, f"no ttl: never executed; place {place}"))
        # (3) dead-lettered stays retrievable
        if place == ["dead"]:
            got = []
            cons = w.conn.message_broker.get_consumer("default", None, None, MessageCategory.DEAD)
            await cons.start()
            try:
                key, payload, params = await asyncio.wait_for(cons.consume(), 3.0)
                got.append(key.id_)
                await w.conn.message_broker.ack(key)
            except asyncio.TimeoutError:
                pass
            await cons.finish()
            if got != ["m1"]:
                out.append(V("dead_not_retrievable", broker, "DEAD-consumer", f"dead-lettered m1 (expired) is not returned by a DEAD-category consumer within 3 s; state {w.rig.snapshot().get('m1')}"))
            else:
                stats["dead_retrieved"] += 1
        if len(samples) < 1:
            samples.append({"broker": broker, "kind": kind, "ttl": ttl, "delta": delta, "E": tE, "starts": [round(s["t"], 6) for s in starts], "first_seen_dead": first_dead.get("t"), "final_place": place})
        stats["unknown_server_commands"] += w.rig.unknown_commands()
    finally:
        await w.close()


async def mixed_scenario(loop, case, out, stats, fps):
    """One queue, one priority, a random sequence of messages that are long expired, alive for another day, or without any
    time-to-live: the expired ones are dead-lettered and never run, every other one runs."""
    from repid.message import MessageCategory
    from rv.wl import World, run_worker

    broker = case["broker"]
    rnd = random.Random(case["seed"])
    w = World(loop, broker, converter="basic", seed=case["seed"], latency=case["latency"])
    try:
        await w.open()
        r = w.router()
        w.scripted_actor(r, "act")
        await w.conn.message_broker.queue_declare("default")
        loop.jump(3600.0 + 1.37)
        kinds = {}
        for i in range(case["n"]):
            k = rnd.choice(["expired", "alive", "none", "expired_aware", "alive_aware"]) if i else "expired"  # (an expired one always leads)
            id_ = f"x{i:02d}"
            if k.endswith("_aware"):
                # a producer that stamps its messages with timezone-aware times, in a zone hours away from this machine's
                from datetime import timezone as _tz

                zone = _tz(timedelta(hours=rnd.choice([6, -6, 11, -9]) + (datetime.now().astimezone().utcoffset() or timedelta(0)).total_seconds() / 3600))
                stats["messages_stamped_in_another_time_zone"] += 1
                aware_now = datetime.now(tz=zone)
                k = k[:-6]
                kinds[id_] = k
                job = w.job("act", id_, {"do": "ok", "d": 0.01}, ttl=timedelta(seconds=2 if k == "expired" else 3600), timeout=timedelta(seconds=30), store_result=False)
                job.timestamp = aware_now - timedelta(seconds=rnd.choice([3, 600, 3000])) if k == "expired" else aware_now
                await job.enqueue()
                continue
            kinds[id_] = k
            job = w.job("act", id_, {"do": "ok", "d": 0.01}, ttl=None if k == "none" else timedelta(seconds=2 if k == "expired" else 86400), timeout=timedelta(seconds=30), store_result=False)
            if k == "expired":
                job.timestamp = datetime.now() - timedelta(seconds=rnd.choice([3, 600, 3000]))  # built long before it is enqueued
            await job.enqueue()
        worker = w.worker([r], tasks_limit=case["tl"], graceful_shutdown_time=3.0, handle_signals=[__import__("signal").SIGUSR1])
        want_runs = {i for i, k in kinds.items() if k != "expired"}
        info = await run_worker(w, worker, until=lambda: {e["id"] for e in w.events("actor_end")} >= want_runs, horizon=6.0 + 0.3 * case["n"], poll=0.25)
        if info["exc"] is not None or not info["returned"]:
            out.append(V("worker_died", broker, "run", f"{info}"))
        await asyncio.sleep(0.3)
        started = {e["id"] for e in w.events("actor_start")}
        snap = w.rig.snapshot()
        for id_, k in kinds.items():
            stats["messages_judged"] += 1
            stats["mixed_queue_messages"] += 1
            if k == "expired":
                if id_ in started:
                    out.append(V("expired_executed", broker, "mixed", f"{id_} (expired before it was enqueued) was executed; queue {list(kinds.values())}"))
                elif snap.get(id_) == ["dead"]:
                    stats["dead_lettered_expired"] += 1
                elif snap.get(id_) != ["waiting"] and not (broker == "redis" and snap.get(id_) == ["held"]):
                    # (still waiting = the worker was stopped before it came to look at it: Redis weeds out one per polling round;
                    # in flight on Redis = fetched ahead by the worker's consumer when the stop came - what becomes of such a
                    # message is C01's / C03's subject, it was not executed)
                    out.append(V("expired_not_dead_lettered", broker, "mixed", f"{id_} (expired) is at {snap.get(id_)}; queue {list(kinds.values())}"))
            else:
                if id_ not in started:
                    out.append(V("live_dead_lettered" if snap.get(id_) == ["dead"] else "live_not_delivered", broker, "mixed", f"{id_} ({'no ttl' if k == 'none' else 'ttl 1 day'}) behind expired messages was never executed; it is at {snap.get(id_)}; queue {list(kinds.values())}"))
                else:
                    stats["executed_live"] += 1
        fps.add(f"{broker}/mixed/{case['n']}/{case['tl']}/{','.join(v[0] for v in kinds.values())}")
        stats["unknown_server_commands"] += w.rig.unknown_commands()
    finally:
        await w.close()


async def twin_expired_scenario(loop, case, out, stats, fps):
    from rv.wl import World, run_worker

    broker, n = case["broker"], case["n"]
    w = World(loop, broker, converter="basic", seed=case["seed"], latency=case["latency"])
    try:
        await w.open()
        r = w.router()
        w.scripted_actor(r, "act")
        await w.conn.message_broker.queue_declare("default")
        loop.jump(3600.0 + 1.37)
        ids = [f"tw{i}" for i in range(n)]
        for id_ in ids:
            # the stale copy first built (an hour ago, 2 s to live), the fresh one enqueued first and running when the
            # stale one is looked at
            await w.job("act", id_, {"do": "ok", "d": 1.5, "label": "live"}, ttl=timedelta(days=1), timeout=timedelta(seconds=30), store_result=False, args_id=f"args-live-{id_}").enqueue()
        for id_ in ids:
            stale = w.job("act", id_, {"do": "ok", "d": 0.01, "label": "stale"}, ttl=timedelta(seconds=2), timeout=timedelta(seconds=30), store_result=False, args_id=f"args-stale-{id_}")
            stale.timestamp = datetime.now() - timedelta(hours=1)
            await stale.enqueue()
        want = set(ids)
        info = await run_worker(w, w.worker([r], tasks_limit=1000, graceful_shutdown_time=5.0, handle_signals=[__import__("signal").SIGUSR1]),
                                until=lambda: {e["id"] for e in w.events("actor_end")} >= want and not w.inflight, horizon=12.0, poll=0.25)
        if info["exc"] is not None or not info["returned"]:
            out.append(V("worker_died", broker, "twin_expired", f"{info}"))
        await asyncio.sleep(0.5)
        runs = collections.Counter((e["id"], e.get("label")) for e in w.events("actor_start"))
        left = collections.defaultdict(list)
        for cat, id_, payload, _ps in await w.rig.drain(w.conn, "default"):
            left[id_].append((cat.lower(), "stale" if "stale" in payload else "live" if "live" in payload else payload[:30]))
        fps.add(f"{broker}/twin_expired/{n}")
        for id_ in ids:
            stats["messages_judged"] += 2
            stats["expired_next_to_a_running_twin"] += 1
            if runs[(id_, "stale")]:
                out.append(V("expired_executed", broker, "twin_expired", f"{id_}: the copy that was an hour old (2 s to live) was executed"))
            if runs[(id_, "live")] != 1:
                out.append(V("live_dead_lettered" if not runs[(id_, "live")] else "expired_executed", broker, "twin_expired", f"{id_}: the live copy (1 day to live) was executed {runs[(id_, 'live')]} times"))
            else:
                stats["executed_live"] += 1
            if sorted(left[id_]) != [("dead", "stale")]:
                rule = "live_dead_lettered" if ("dead", "live") in left[id_] else "expired_not_dead_lettered"
                out.append(V(rule, broker, "twin_expired", f"{id_}: a copy an hour old (2 s to live) was met while its twin of the same id, topic and priority (1 day to live) was being executed; afterwards the broker holds {sorted(left[id_])}, "
                                                            f"expected [('dead', 'stale')]"))
                break
            stats["dead_lettered_expired"] += 1
        stats["unknown_server_commands"] += w.rig.unknown_commands()
    finally:
        await w.close()


async def revive_scenario(loop, case, out, stats, fps):
    from repid.message import Message, MessageCategory
    from rv.wl import World, run_worker

    broker, n, ttl, wait = case["broker"], case["n"], case["ttl"], case["delta"]
    w = World(loop, broker, converter="basic", seed=case["seed"], latency=case["latency"])
    try:
        await w.open()
        r = w.router()
        w.scripted_actor(r, "act")
        mb = w.conn.message_broker
        await mb.queue_declare("default")
        loop.jump(3600.0 + case["phase"])
        ids = [f"v{i}" for i in range(n)]
        for i, id_ in enumerate(ids):
            # (one of them recurs: its revival is a reschedule like any other)
            await w.job("act", id_, {"do": "ok", "d": 0.01}, ttl=timedelta(seconds=ttl), timeout=timedelta(seconds=30), store_result=False).enqueue()
        await asyncio.sleep(ttl + 1.5)
        sig = __import__("signal").SIGUSR1
        # a worker weeds them out
        await run_worker(w, w.worker([r], tasks_limit=3, graceful_shutdown_time=3.0, handle_signals=[sig]), until=lambda: all(w.rig.snapshot().get(i) == ["dead"] for i in ids), horizon=8.0, poll=0.25)
        await asyncio.sleep(0.3)
        snap = w.rig.snapshot()
        ctx = f"revive/wait={wait}"
        if any(snap.get(i) != ["dead"] for i in ids) or w.events("actor_start"):
            out.append(V("expired_executed" if w.events("actor_start") else "expired_not_dead_lettered", broker, ctx + "/first-life", f"messages older than their {ttl}s time-to-live: places {snap}, executions {[e['id'] for e in w.events('actor_start')]}"))
            return
        # queue tooling revives them
        cons = mb.get_consumer("default", None, None, MessageCategory.DEAD)
        await cons.start()
        t_rev = {}
        for _ in ids:
            try:
                key, payload, params = await asyncio.wait_for(cons.consume(), 5.0)
            except asyncio.TimeoutError:
                break
            stats["dead_retrieved"] += 1
            await Message(key=key, raw_payload=payload, parameters=params, _connection=w.conn, _category=MessageCategory.DEAD).reschedule()
            t_rev[key.id_] = loop.time()
        await cons.finish()
        if set(t_rev) != set(ids):
            out.append(V("harness_or_api_error", broker, ctx, f"only {sorted(t_rev)} of {ids} could be read from the dead category"))
            return
        await asyncio.sleep(wait)
        n0 = len(w.events("actor_start"))
        t_worker = loop.time()
        live = {i for i in ids if t_worker < t_rev[i] + ttl - 0.3}
        gone = {i for i in ids if t_worker > t_rev[i] + ttl + 0.05}
        await run_worker(w, w.worker([r], tasks_limit=3, graceful_shutdown_time=3.0, handle_signals=[sig]),
                         until=lambda: {e["id"] for e in w.events("actor_end")} >= live and all(w.rig.snapshot().get(i) == ["dead"] for i in gone), horizon=8.0, poll=0.25)
        await asyncio.sleep(0.3)
        snap = w.rig.snapshot()
        started = {e["id"]: e["t"] for e in w.events("actor_start")}
        for i in ids:
            stats["messages_judged"] += 1
            stats["revived_messages_judged"] += 1
            if i in started and started[i] > t_rev[i] + ttl + 0.001:
                out.append(V("expired_executed", broker, ctx, f"{i} revived at +{t_rev[i]:.3f}s with a {ttl}s time-to-live was executed at +{started[i]:.3f}s"))
            elif i in live and i not in started:
                out.append(V("live_dead_lettered" if snap.get(i) == ["dead"] else "live_not_delivered", broker, ctx, f"{i}: dead-lettered for its age, rescheduled from the dead category at +{t_rev[i]:.3f}s (a new scheduling: {ttl}s to live from then), "
                             f"a worker started {t_worker - t_rev[i]:.3f}s later; never executed, now at {snap.get(i)}"))
            elif i in live:
                stats["executed_live"] += 1
            elif i in gone and i not in started:
                if snap.get(i) == ["dead"]:
                    stats["dead_lettered_expired"] += 1
                elif snap.get(i) != ["waiting"]:
                    out.append(V("expired_not_dead_lettered", broker, ctx, f"{i} (revived, expired again) is at {snap.get(i)}"))
        fps.add(f"{broker}/revive/{wait}/{case['phase']}")
        stats["unknown_server_commands"] += w.rig.unknown_commands()
    finally:
        await w.close()


async def tz_scenario(loop, case, out, stats, fps):
    """Local time zone with a non-zero UTC offset: the time-to-live of a rescheduled message still counts from its
    rescheduling, in the same clock the expiry test uses. Only public API, no arithmetic on the harness epoch."""
    from repid import Job, Router, Worker
    from repid.converter import BasicConverter
    from repid.message import MessageCategory
    from repid.router import RouterDefaults
    from rv.rigs import Rig

    rig = Rig("mem", loop)
    try:
        conn = rig.make_connection("p1")
        await conn.connect()
        await conn.message_broker.queue_declare("default")
        r = Router(defaults=RouterDefaults(converter=BasicConverter))
        runs = []

        async def tick():
            runs.append(datetime.now())

        r.actor(name="tick")(tick)
        stats["messages_judged"] += 1
        stats["timezone_offset_runs"] += 1
        fps.add(f"tz/{case['tz']}/{case['mode']}")
        if case["mode"] == "live_recurring":
            # ttl 3 s, every second: each iteration is well inside its restarted ttl
            await Job("tick", id_="z1", ttl=timedelta(seconds=3), deferred_by=timedelta(seconds=1), store_result=False, _connection=conn).enqueue()
            w = Worker(routers=[r], messages_limit=3, handle_signals=[], _connection=conn)
            try:
                await asyncio.wait_for(w.run(), 12)
            except asyncio.TimeoutError:
                pass
            if len(runs) < 3:
                out.append(V("live_dead_lettered", "mem", "timezone-offset", f"TZ={case['tz']}: recurring job (ttl 3 s, period 1 s) ran {len(runs)} times in 12 s; state {rig.snapshot().get('z1')}"))
            else:
                stats["executed_live"] += 1
        else:
            # ttl 1 s, period 2.5 s: the rescheduled message is due after its restarted ttl has run out
            await Job("tick", id_="z2", ttl=timedelta(seconds=1), deferred_until=datetime.now() + timedelta(seconds=0.2), deferred_by=timedelta(seconds=2.5), store_result=False, _connection=conn).enqueue()
            w = Worker(routers=[r], messages_limit=2, handle_signals=[], _connection=conn)
            try:
                await asyncio.wait_for(w.run(), 8)
            except asyncio.TimeoutError:
                pass
            if len(runs) > 1:
                out.append(V("expired_executed", "mem", "timezone-offset", f"TZ={case['tz']}: iteration 2 (ttl 1 s, due 2.5 s after its rescheduling) was executed at {runs[1]}"))
            elif rig.snapshot().get("z2") == ["dead"]:
                stats["dead_lettered_expired"] += 1
        await conn.disconnect()
    finally:
        rig.close()


def run_case(case):
    from rv.sim import loop as vl

    stats = collections.Counter()
    out, fps, samples = [], set(), []
    if case.get("kind") == "tz":
        import os
        import time as _time

        old = os.environ.get("TZ")
        os.environ["TZ"] = case["tz"]
        _time.tzset()
        try:
            res = vl.run(lambda loop: tz_scenario(loop, case, out, stats, fps), max_steps=3_000_000, seed=case["seed"])
        finally:
            if old is None:
                os.environ.pop("TZ", None)
            else:
                os.environ["TZ"] = old
            _time.tzset()
        if res.exc is not None:
            out.append(V("harness_or_api_error", "mem", "tz", f"{type(res.exc).__name__}: {res.exc}"))
        return {"fp": None, "fps": sorted(fps), "viol": out[:8], "stats": dict(stats)}
    if case.get("kind") == "mixed":
        res = vl.run(lambda loop: mixed_scenario(loop, case, out, stats, fps), max_steps=3_000_000, seed=case["seed"])
    elif case.get("kind") == "twin_expired":
        res = vl.run(lambda loop: twin_expired_scenario(loop, case, out, stats, fps), max_steps=3_000_000, seed=case["seed"])
    elif case.get("kind") == "revive":
        res = vl.run(lambda loop: revive_scenario(loop, case, out, stats, fps), max_steps=3_000_000, seed=case["seed"])
    else:
        res = vl.run(lambda loop: scenario(loop, case, out, stats, fps, samples), max_steps=3_000_000, seed=case["seed"])
    if res.exc is not None:
        out.append(V("harness_or_api_error", case["broker"], "scenario", f"{type(res.exc).__name__}: {res.exc}"))
    if stats.get("unknown_server_commands"):
        return {"fp": None, "viol": [], "stats": dict(stats), "inconclusive": "fake server saw unknown commands"}
    r = {"fp": None, "fps": sorted(fps), "viol": out[:8], "stats": dict(stats)}
    if samples and case["cid"] % 17 == 0:
        r["sample"] = samples[0]
    return r

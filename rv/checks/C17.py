"""C17 - middleware only observes.

Ground truth: every call of a middleware-wrapped operation (class-level spy on _middleware_wrapper.__call__: name,
actual arguments, nesting, owning connection, result/exception). Signals: recording subscribers per connection.
Monitor: exactly one before_<op> between the call and the operation's first effect, exactly one after_<op> with the
result on success, none on failure, none for nested operations, keyword sets equal to the actual arguments by name,
delivered to the owning connection only. Differential: the same scenario under different subscriber sets must give
identical operation results, exceptions and final broker state.
"""
from __future__ import annotations

import asyncio
import collections
import inspect
import random
from datetime import timedelta

LEVEL = "exploration"
RULE = ("job lifecycles (enqueue with args bucket, consume, actor run, ack/nack/requeue, result store, get/delete bucket, queue declare/flush/"
        "delete, a failing operation) x call style {positional, keyword} x subscriber set {none, recording, raising, slow, sync, partial "
        "signature, mixed} x connections {1, 2 with workers created in either order} x broker {mem, redis}; evaluation = one wrapped "
        "operation judged; fingerprint = (broker, operation, nested?, call style, subscriber set, connections); trivial = none")
ASSUMPTIONS = ["ground truth is taken by a harness-side class-level wrapper around _middleware_wrapper.__call__ (no repository edit)", "virtual time",
               "the operation's first effect = the first event logged by the broker-boundary recorder inside the wrapped function"]
EVAL_COUNTER = "operations_judged"
REQUIRED = ["single_subscriber_runs", "operations_performed_by_subscribers", "effects_located", "actor_run_effects_located", "operations_judged", "nested_operations_seen", "failed_operations_seen", "differential_pairs", "two_connection_runs", "op_actor_run", "op_store_bucket", "op_consume", "middleware_method_calls", "twin_middleware_calls"]
CASE_TIMEOUT = 150

SUBSETS = ["none", "recording", "raising", "slow", "sync", "partial", "mixed"]


def gen_cases(tier, seed):
    rnd = random.Random(seed)
    cases = []
    n = {"quick": 5, "thorough": 60}[tier]
    for kind in ("mem", "redis"):
        for i in range(n):
            cases.append({"kind": kind, "seed": rnd.randrange(10**6), "conns": 1, "order": 0})
            cases.append({"kind": kind, "seed": rnd.randrange(10**6), "conns": 2, "order": i % 2})
    return cases


def V(rule, kind, ctx, detail):
    return {"rule": rule, "broker": kind, "context": ctx, "detail": detail}


import contextvars

CUR_OP = contextvars.ContextVar("rv_c17_op", default=None)
# set by the `followup` subscribers around the operations THEY perform: a subscriber runs before / after the wrapped function,
# not inside it, so what it does is a top-level operation of its own (and owes its own signals)
IN_SUB = contextvars.ContextVar("rv_c17_in_subscriber", default=False)
# written by the `ctxvar` subscribers (request-scoped state of a tracing middleware): must never be visible inside an operation
# or in the caller's context afterwards
SUBCTX = contextvars.ContextVar("rv_c17_subscriber_state", default=None)


def install_spy(rig_log, owner_of):
    """Class-level ground-truth wrapper. Returns (truth list, uninstall)."""
    from repid.middlewares.wrapper import IsInsideMiddleware, _middleware_wrapper

    truth = []
    running = set()  # opids whose call has not returned yet
    orig = _middleware_wrapper.__call__

    async def spy(self, *args, **kwargs):
        # nesting is tracked by the spy itself (own context variable), independently of the flag the code under test uses.
        # Nested = inside the dynamic extent of another wrapped call: a background task that was spawned during an
        # operation and outlives it inherits the variable, but what it does after that operation returned is top-level.
        from_sub = IN_SUB.get()
        nested = (CUR_OP.get() is not None and CUR_OP.get() in running and not from_sub) or self._repid_signal_emitter is None
        ent = {"task": asyncio.current_task(), "no_emitter": self._repid_signal_emitter is None, "name": self.name, "nested": nested, "args": args, "kwargs": kwargs, "owner": owner_of(self, args, kwargs), "enter": rig_log.add(k="truth_enter", op=self.name), "wrapper": self,
               "opid": len(truth), "parent": CUR_OP.get(), "from_subscriber": from_sub}
        truth.append(ent)
        tok = CUR_OP.set(ent["opid"])
        tok_sub = IN_SUB.set(False)
        running.add(ent["opid"])
        try:
            r = await orig(self, *args, **kwargs)
        except BaseException as exc:  # noqa: BLE001
            ent["exc"] = type(exc).__name__
            ent["exit"] = rig_log.add(k="truth_exit", op=self.name)
            raise
        finally:
            running.discard(ent["opid"])
            CUR_OP.reset(tok)
            IN_SUB.reset(tok_sub)
            # settle the children's nesting now that this operation is over: a call made from a task that is still alive
            # (a background task spawned during the operation) ran beside it, not inside it
            for ch in truth[ent["opid"] + 1:]:
                if ch["parent"] == ent["opid"] and not ch["from_subscriber"]:
                    ch["nested"] = ch["no_emitter"] or ch["task"] is ent["task"] or ch["task"].done()
        ent["result"] = r
        ent["exit"] = rig_log.add(k="truth_exit", op=self.name)
        return r

    _middleware_wrapper.__call__ = spy

    def uninstall():
        _middleware_wrapper.__call__ = orig

    return truth, uninstall


def make_subscribers(kind, label, signals, rig_log, names, conn=None):
    """Subscriber functions named after the signals, of the requested flavour."""
    subs = []
    for name in names:
        def mk(name=name):
            if kind == "ctxvar":
                async def g():
                    SUBCTX.set(name)
                g.__name__ = name
                return g
            if kind == "followup":
                # subscribers that work with the connection themselves (an audit record per enqueued message, a look at it
                # before a message is dead-lettered, a follow-up job after an actor ran): operations of their own
                async def g(key=None):
                    if key is None or str(key.id_).startswith(("audit", "fu-")):
                        return
                    tok = IN_SUB.set(True)
                    try:
                        rb = conn.results_bucket_broker
                        if name == "after_enqueue":
                            from datetime import datetime as _dt

                            rig_log.add(k="followup_op", name=name, conn=label)
                            await rb.store_bucket(f"audit-{key.id_}", rb.BUCKET_CLASS(data="seen", started_when=1, finished_when=2, success=True, exception=None, timestamp=_dt.now(), ttl=None))
                        elif name == "before_nack":
                            rig_log.add(k="followup_op", name=name, conn=label)
                            await rb.get_bucket(f"audit-{key.id_}")
                        elif name == "after_actor_run" and str(key.id_).endswith("-a"):
                            from repid import Job as _Job

                            rig_log.add(k="followup_op", name=name, conn=label)
                            await _Job("act", id_=f"fu-{key.id_}", queue=key.queue, args={"script": {"do": "ok"}}, args_id=f"args-fu-{key.id_}", store_result=False, _connection=conn).enqueue()
                    finally:
                        IN_SUB.reset(tok)
                g.__name__ = name
                return g
            if kind == "recording":
                async def f(**kw):
                    signals.append({"conn": label, "name": name, "kwargs": kw, "n": rig_log.add(k="signal", name=name, conn=label)})
                # add_subscriber filters kwargs by the function's argspec: a **kw-only function receives nothing,
                # so recording subscribers declare every possible parameter explicitly
                async def g(key=None, payload=None, params=None, queue_name=None, id_=None, result=None, actor=None, parameters=None, connection=None, self=None):
                    loc = dict(key=key, payload=payload, params=params, queue_name=queue_name, id_=id_, result=result, actor=actor, parameters=parameters, connection=connection)
                    signals.append({"conn": label, "name": name, "kwargs": loc, "n": rig_log.add(k="signal", name=name, conn=label), "opid": CUR_OP.get()})
                g.__name__ = name
                return g
            if kind == "raising":
                async def g(key=None, result=None):
                    # (texts a failing subscriber really produces: dict reprs, format specs, lone braces)
                    raise RuntimeError(["subscriber %s fails" % name, "bad payload {'k': 1}", "{0} {name} }{", "100%s %(x)d", ""][len(name) % 5])
            elif kind == "slow":
                async def g(key=None, id_=None):
                    await asyncio.sleep(0.4)
            elif kind == "sync":
                def g(key=None, payload=None, result=None):
                    return 42
            elif kind == "partial":
                async def g(result=None):
                    return None
            elif kind == "needy":
                # requires arguments no signal (or not this one) supplies: the call cannot even be made; that is the
                # subscriber's problem, logged and nothing else
                if len(name) % 2:
                    async def g(key, payload, params, result, nonexistent):
                        rig_log.add(k="needy_called", name=name, conn=label)
                else:
                    def g(result, id_, queue_name, actor):
                        rig_log.add(k="needy_called", name=name, conn=label)
            elif kind == "noargs":
                # declares nothing at all: still one call per signal
                if len(name) % 2:
                    async def g():
                        rig_log.add(k="noargs_signal", name=name, conn=label)
                else:
                    def g():
                        rig_log.add(k="noargs_signal", name=name, conn=label)
            else:
                raise AssertionError(kind)
            g.__name__ = name
            return g
        subs.append(mk())
    return subs


def make_twin_middlewares(label, rig_log, names):
    """Two instances of ONE middleware class (their bound methods share the underlying functions)."""
    ns = {}
    for name in names:
        def mk(name=name):
            def m(self, key=None, result=None):
                rig_log.add(k="twin_signal", name=name, conn=label, twin=self.tag)
            m.__name__ = name
            return m
        ns[name] = mk()

    def __init__(self, tag):
        self.tag = tag

    ns["__init__"] = __init__
    cls = type("Tracer", (), ns)
    return cls("a"), cls("b")


def make_middleware_object(label, rig_log, names):
    """A middleware in the documented class form: an instance whose methods are named after signals (bound methods: `self`
    is part of their argspec), next to helper methods that are not signals and must never be called."""
    ns = {}
    for name in names:
        def mk(name=name):
            if len(name) % 2:
                async def m(self, key=None, result=None):
                    rig_log.add(k="method_signal", name=name, conn=label)
            else:
                def m(self, payload=None, queue_name=None):
                    rig_log.add(k="method_signal", name=name, conn=label)
            m.__name__ = name
            return m
        ns[name] = mk()

    def helper(self, *a, **kw):
        rig_log.add(k="method_signal", name="<helper called>", conn=label)

    ns["helper"] = helper
    ns["_before_nothing"] = helper
    ns["after"] = helper
    return type("RecordingMiddleware", (), ns)()


async def lifecycle(loop, case, subset, record):
    """One scenario run. Returns dict(truth=[...], signals=[...], ops=[(name, outcome)], final=snapshot, violations=[])"""
    from repid import Job
    from repid.message import MessageCategory
    from repid.middlewares import SUBSCRIBERS_NAMES
    from rv.rigs import key_of
    from rv.wl import World, run_worker

    kind = case["kind"]
    rnd = random.Random(case["seed"])
    w = World(loop, kind, converter="basic", seed=case["seed"], latency=None)
    uninstall = None
    try:
        conns = {"w1": w.conn}
        if case["conns"] == 2:
            conns["w2"] = w.rig.make_connection("w2", share_mem=False) if kind == "mem" else w.rig.make_connection("w2")
        by_obj = {}

        def owner_of(wrapper, args, kwargs):
            fn = wrapper.fn
            obj = getattr(fn, "__self__", None)
            if obj is not None:
                lab = getattr(obj, "_rv_label", "?")
                return lab.split("/")[0]
            # actor_run: static function, the connection is its 5th argument
            conn = kwargs.get("connection") if "connection" in kwargs else (args[4] if len(args) > 4 else None)
            for lab, c in conns.items():
                if c is conn:
                    return lab
            return "?"

        truth, uninstall = install_spy(w.log, owner_of)
        w.log.extra = lambda: {"opid": CUR_OP.get(), "sub_ctx": SUBCTX.get()}
        signals = []
        names = sorted(SUBSCRIBERS_NAMES)
        flavours = {"ctxvar": ["ctxvar"], "followup": ["followup", "recording"], "none": [], "recording": ["recording"], "raising": ["raising", "recording"], "slow": ["slow", "recording"], "sync": ["sync", "recording"],
                    "partial": ["partial", "noargs", "needy", "recording"], "mixed": ["raising", "slow", "sync", "partial", "noargs", "needy", "recording"]}[subset]
        for lab, c in conns.items():
            for fl in flavours:
                for f in make_subscribers(fl, lab, signals, w.log, names, conn=c):
                    c.middleware.add_subscriber(f)
            if subset in ("partial", "mixed"):
                c.middleware.add_middleware(make_middleware_object(lab, w.log, names))
                # a second instance of the SAME class (two tracers with different settings): it is a subscriber of its own
                twin_a, twin_b = make_twin_middlewares(lab, w.log, names)
                c.middleware.add_middleware(twin_a)
                c.middleware.add_middleware(twin_b)
                # ... and the same thing handed over as a class: its functions require a `self` no signal supplies
                c.middleware.add_middleware(type(make_middleware_object(lab + "-class", w.log, names)))
        for c in conns.values():
            await c.connect()
        routers = {}
        workers = {}
        order = list(conns)
        if case["order"]:
            order.reverse()
        from repid import Router, Worker
        from repid.converter import BasicConverter
        from repid.router import RouterDefaults

        for lab in order:
            c = conns[lab]
            r = Router(defaults=RouterDefaults(converter=BasicConverter, retry_policy=lambda retry_number=1: timedelta(seconds=0.2)))
            w.conn = c  # scripted_actor only uses world.log / counters
            w.scripted_actor(r, "act", queue=f"q{lab}")
            # an actor that works with every connection alive in the process while it runs (nested operations on its own
            # AND on the other connection: none of them is announced to anybody's subscribers)
            from rv.actors import register_cross_actor

            register_cross_actor(r, "cross", f"q{lab}", conns, w.log)
            routers[lab] = r
            workers[lab] = Worker(routers=[r], tasks_limit=3, graceful_shutdown_time=4.0, handle_signals=[__import__("signal").SIGUSR1] if lab == order[0] else [], _connection=c)
        w.conn = conns["w1"]
        style = rnd.choice(["positional", "keyword"])
        ops = []

        async def op(name, coro):
            try:
                r = await coro
                if hasattr(r, "started_when"):
                    r = (r.success, r.data, r.exception)  # timings legitimately differ under slow subscribers
                ops.append((name, "ok", repr(r)[:80] if not (isinstance(r, tuple) and r and hasattr(r[0], "id_")) else repr(r[0])[:80]))
                return r
            except Exception as exc:  # noqa: BLE001
                ops.append((name, "raise", type(exc).__name__))
                return None

        for lab, c in conns.items():
            mb = c.message_broker
            q = f"q{lab}"
            if style == "positional":
                await op("queue_declare", mb.queue_declare(q))
            else:
                await op("queue_declare", mb.queue_declare(queue_name=q))
            # jobs: ok with result, failing with retry, and one raw message handled by hand
            await op("job1", Job("act", id_=f"{lab}-a", queue=q, args={"script": {"do": "ok", "ret": {"v": 1}}}, args_id=f"args-{lab}-a", result_id=f"res-{lab}-a", store_result=True, _connection=c).enqueue())
            await op("job2", Job("act", id_=f"{lab}-b", queue=q, args={"script": {"by_attempt": [{"do": "raise"}, {"do": "ok"}]}}, args_id=f"args-{lab}-b", result_id=f"res-{lab}-b", retries=1, store_result=True, _connection=c).enqueue())
            await op("job4", Job("cross", id_=f"{lab}-d", queue=q, store_result=False, _connection=c).enqueue())
            await op("job3", Job("act", id_=f"{lab}-c", queue=q, args={"script": {"do": "raise", "exc": "KeyError"}}, args_id=f"args-{lab}-c", result_id=f"res-{lab}-c", store_result=False, _connection=c).enqueue())
            P = mb.PARAMETERS_CLASS
            await op("queue_declare2", mb.queue_declare("manual" + lab))
            k = key_of(c, f"{lab}-m", "t", "manual" + lab)
            if style == "positional":
                await op("enqueue", mb.enqueue(k, "raw", P()))
            else:
                await op("enqueue", mb.enqueue(key=k, payload="raw", params=P()))
            cons = mb.get_consumer("manual" + lab, None, None, MessageCategory.NORMAL)
            if kind == "mem":
                await op("consume-not-started", cons.consume())  # fails: RuntimeError
            await cons.start()
            got = await op("consume", asyncio.wait_for(cons.consume(), 5))
            if got is not None:
                k2 = got[0]
                p2 = P()
                if style == "positional":
                    await op("requeue", mb.requeue(k2, "raw2", p2))
                else:
                    await op("requeue", mb.requeue(key=k2, payload="raw2", params=p2))
                got2 = await op("consume2", asyncio.wait_for(cons.consume(), 5))
                if got2 is not None:
                    await op("reject", mb.reject(got2[0]) if style == "positional" else mb.reject(key=got2[0]))
                    got3 = await op("consume3", asyncio.wait_for(cons.consume(), 5))
                    if got3 is not None:
                        await op("nack", mb.nack(got3[0]) if style == "positional" else mb.nack(key=got3[0]))
            await cons.finish()
            # a message whose time-to-live ran out before a consumer sees it: a broker that dead-letters it through its own
            # wrapped nack (from its background polling task) owes that operation's signals like any other top-level call
            k3 = key_of(c, f"{lab}-x", "t", "manual" + lab)
            await op("enqueue-expiring", mb.enqueue(k3, "raw", P(ttl=timedelta(seconds=1))))
            await asyncio.sleep(1.6)
            cons2 = mb.get_consumer("manual" + lab, None, None, MessageCategory.NORMAL)
            await cons2.start()
            await op("consume-expired", asyncio.wait_for(cons2.consume(), 2.5 if kind == "redis" else 0.6))
            await cons2.finish()
        # workers
        want_final = {f"{lab}-{x}" for lab in conns for x in "abcd"}

        def all_final():
            return want_final <= {e["id"] for e in w.log.events if e.get("k") == "ret" and e.get("depth") == 0 and e.get("op") in ("ack", "nack")} and not w.inflight

        tasks = [loop.create_task(run_worker(w, workers[order[0]], until=all_final, horizon=60.0, poll=0.25))]
        for lab in order[1:]:
            tasks.append(loop.create_task(workers[lab].run()))
        info = await tasks[0]
        for lab, t in zip(order[1:], tasks[1:]):
            # second worker has no signal handler: stop it through its runner path by cancelling after the first is done
            t.cancel()
            try:
                await t
            except BaseException:  # noqa: BLE001
                pass
        for lab, c in conns.items():
            job = Job("act", id_=f"{lab}-a", result_id=f"res-{lab}-a", _connection=c)
            rb = await op("job.result", job.result)
            ab = c.args_bucket_broker
            await op("get_bucket", ab.get_bucket(f"args-{lab}-a") if style == "positional" else ab.get_bucket(id_=f"args-{lab}-a"))
            await op("delete_bucket", ab.delete_bucket(f"args-{lab}-a") if style == "positional" else ab.delete_bucket(id_=f"args-{lab}-a"))
            await op("queue_flush", c.message_broker.queue_flush("manual" + lab))
            await op("queue_delete", c.message_broker.queue_delete("manual" + lab))
        await asyncio.sleep(0.3)
        record["truth"] = truth
        record["signals"] = signals
        record["ops"] = ops
        record["final"] = w.rig.snapshot() if case["conns"] == 1 or kind != "mem" else {}
        record["dispositions"] = sorted((e["id"], e["op"], (e.get("params") or {}).get("tried")) for e in w.dispositions())
        record["events"] = w.log.events
        record["style"] = style
        record["worker"] = info
        record["unknown"] = w.rig.unknown_commands()
        for lab, c in conns.items():
            if lab != "w1":
                try:
                    await asyncio.wait_for(c.disconnect(), 10)
                except Exception:  # noqa: BLE001
                    pass
    finally:
        if uninstall:
            uninstall()
        await w.close()


def judge_signals(case, subset, rec, out, stats, fps):
    kind = case["kind"]
    sig = rec["signals"]
    ev = rec["events"]
    by_n = {e["n"]: e for e in ev}
    used = set()
    for t in rec["truth"]:
        name = t["name"]
        stats["operations_judged"] += 1
        stats["op_" + name] += 1
        fps.add(f"{kind}/{name}/{t['nested']}/{rec['style']}/{subset}/{case['conns']}")
        # signals carry the id of the innermost wrapped operation they were emitted from (context variable set by the spy)
        inside = [s for s in sig if s.get("opid") == t["opid"]]
        ctx = name
        if t["nested"]:
            stats["nested_operations_seen"] += 1
            if inside:
                out.append(V("nested_signal", kind, ctx, f"{name} nested inside another wrapped operation emitted {[s['name'] for s in inside]}"))
            continue
        wrong_name = [s for s in inside if s["name"] not in (f"before_{name}", f"after_{name}")]
        if wrong_name:
            out.append(V("kwargs_mismatch", kind, ctx + "/signal-name", f"{name} emitted {[s['name'] for s in wrong_name]}"))
        # the operation's first effect: first recorder event of the same op inside the span
        owner = t["owner"]

        def mine_ev(e):
            return str(e.get("who", "")).split("/")[0] == owner

        first_effect = next((e["n"] for e in ev if e.get("opid") == t["opid"] and e.get("k") == "call" and e.get("op") == name), None)
        if name == "actor_run":
            key = t["kwargs"].get("key") if "key" in t["kwargs"] else (t["args"][1] if len(t["args"]) > 1 else None)
            first_effect = next((e["n"] for e in ev if e.get("opid") == t["opid"] and e.get("k") in ("actor_start",)), None)
            stats["actor_run_effects_located"] += 1 if first_effect is not None else 0
        mine = [s for s in inside if s["conn"] == owner]
        foreign = [s for s in inside if s["conn"] != owner]
        # signals of the SAME name may also belong to nested same-name operations: there are none in repid (nested ops have other names)
        befores = [s for s in mine if s["name"] == f"before_{name}"]
        afters = [s for s in mine if s["name"] == f"after_{name}"]
        if foreign:
            out.append(V("wrong_connection", kind, ctx, f"{name} of connection {owner}: signals {[s['name'] for s in foreign]} went to the subscribers of {sorted({s['conn'] for s in foreign})}; own subscribers got {[s['name'] for s in mine]}"))
        if len(befores) != 1:
            if not foreign:
                out.append(V("missing_before" if not befores else "duplicate_signal", kind, ctx, f"{name} ({rec['style']} call) on {owner}: {len(befores)} before-signals"))
        elif first_effect is not None and befores[0]["n"] > first_effect:
            out.append(V("missing_before", kind, ctx + "/late", f"before_{name} emitted after the operation's first effect"))
        failed = "exc" in t
        if failed:
            stats["failed_operations_seen"] += 1
            if afters:
                out.append(V("after_on_failure", kind, ctx, f"{name} raised {t['exc']} but after_{name} was emitted"))
        else:
            if len(afters) != 1:
                if not foreign:
                    out.append(V("missing_after" if not afters else "duplicate_signal", kind, ctx, f"{name} ({rec['style']} call) on {owner} succeeded: {len(afters)} after-signals"))
            else:
                last_effect = max((e["n"] for e in ev if e.get("opid") == t["opid"] and e.get("k") in ("ret",) and e.get("op") == name), default=None)
                stats["effects_located"] += 1 if last_effect is not None else 0
                if last_effect is not None and afters[0]["n"] < last_effect:
                    out.append(V("missing_after", kind, ctx + "/early", f"after_{name} emitted before the operation finished"))
        # keyword sets equal the actual arguments by parameter name
        try:
            params = list(inspect.signature(t["wrapper"].fn).parameters)
        except (TypeError, ValueError):
            params = []
        actual = dict(t["kwargs"])
        actual.update(zip(params, t["args"]))
        for s in befores[:1] + ([] if failed else afters[:1]):
            got = {k: v for k, v in s["kwargs"].items() if v is not None and k != "result"}
            want = {k: v for k, v in actual.items() if v is not None and k in s["kwargs"]}
            if got != want:
                out.append(V("kwargs_mismatch", kind, f"{name}/{rec['style']}", f"{s['name']}: subscriber received {sorted(got)} = {str(got)[:160]}, the call's arguments by name are {sorted(want)} = {str(want)[:160]}"))
            if s["name"].startswith("after_") and "result" in s["kwargs"]:
                if s["kwargs"]["result"] is not t.get("result") and s["kwargs"]["result"] != t.get("result"):
                    out.append(V("kwargs_mismatch", kind, f"{name}/result", f"after_{name} carried result {str(s['kwargs']['result'])[:80]}, the operation returned {str(t.get('result'))[:80]}"))


def judge_shapes(case, subset, rec, out, stats):
    """Subscribers of other shapes see the same signals: one without parameters is called once per emitted signal."""
    if subset not in ("partial", "mixed"):
        return
    full = collections.Counter((s["conn"], s["name"]) for s in rec["signals"])
    bare = collections.Counter((e["conn"], e["name"]) for e in rec["events"] if e.get("k") == "noargs_signal")
    stats["noargs_subscriber_calls"] += sum(bare.values())
    meth = collections.Counter((e["conn"], e["name"]) for e in rec["events"] if e.get("k") == "method_signal")
    stats["middleware_method_calls"] += sum(meth.values())
    for k in sorted(set(full) | set(meth)):
        if full[k] != meth[k]:
            out.append(V("missing_before" if k[1].startswith("before_") else "missing_after", case["kind"], "middleware-object-method", f"{k[1]} on {k[0]}: the plain subscriber was called {full[k]} times, the middleware object's method {meth[k]} times"))
            break
    for tag in ("a", "b"):
        twin = collections.Counter((e["conn"], e["name"]) for e in rec["events"] if e.get("k") == "twin_signal" and e.get("twin") == tag)
        stats["twin_middleware_calls"] += sum(twin.values())
        for k in sorted(set(full) | set(twin)):
            if full[k] != twin[k]:
                out.append(V("missing_before" if k[1].startswith("before_") else "missing_after", case["kind"], "second-instance-of-a-middleware-class", f"{k[1]} on {k[0]}: the plain subscriber was called {full[k]} times, instance {tag!r} of the Tracer class {twin[k]} times"))
                break
    for k in sorted(set(full) | set(bare)):
        if full[k] != bare[k]:
            out.append(V("missing_before" if k[1].startswith("before_") else "missing_after", case["kind"], "subscriber-without-parameters", f"{k[1]} on {k[0]}: the fully declared subscriber was called {full[k]} times, the one without parameters {bare[k]} times"))
            break


def run_case(case):
    from rv.sim import loop as vl

    stats = collections.Counter()
    out, fps = [], set()
    recs = {}
    # (`followup`: subscribers that perform operations of their own; judged on its signals only, its operations differ by design)
    # (`ctxvar`: exactly ONE subscriber per signal, which writes a context variable: the operation and its caller never see it)
    for subset in SUBSETS + ["followup", "ctxvar"]:
        rec = {}
        res = vl.run(lambda loop: lifecycle(loop, case, subset, rec), max_steps=4_000_000, seed=case["seed"])
        if res.exc is not None or "truth" not in rec:
            out.append(V("subscriber_changed_outcome", case["kind"], f"{subset}/scenario-died", f"{type(res.exc).__name__}: {res.exc}"))
            continue
        if rec.get("unknown"):
            return {"fp": None, "viol": [], "stats": dict(stats), "inconclusive": "fake server saw unknown commands"}
        if subset == "ctxvar":
            leaks = [e for e in rec["events"] if e.get("sub_ctx") is not None]
            stats["events_checked_for_subscriber_state"] += len(rec["events"])
            stats["single_subscriber_runs"] += 1
            if leaks:
                e0 = leaks[0]
                out.append(V("subscriber_changed_outcome", case["kind"], "ctxvar/subscriber-state-visible", f"a lone async subscriber set a context variable; {len(leaks)} events logged inside operations (or by their caller afterwards) "
                                                                                                      f"saw it, first: {e0.get('k')} {e0.get('op') or e0.get('actor')} saw {e0['sub_ctx']!r}"))
            continue
        if subset == "followup":
            judge_signals(case, subset, rec, out, stats, fps)
            stats["operations_performed_by_subscribers"] += sum(1 for t in rec["truth"] if t.get("from_subscriber"))
            continue
        recs[subset] = rec
        if subset != "none":
            judge_signals(case, subset, rec, out, stats, fps)
            judge_shapes(case, subset, rec, out, stats)
        if case["conns"] == 2:
            stats["two_connection_runs"] += 1
    base = recs.get("none")
    for subset, rec in recs.items():
        if subset == "none" or base is None:
            continue
        stats["differential_pairs"] += 1
        if rec["ops"] != base["ops"]:
            diff = [(a, b) for a, b in zip(rec["ops"], base["ops"]) if a != b][:2]
            out.append(V("subscriber_changed_outcome", case["kind"], f"{subset}/results", f"operation results differ from the run without subscribers: {diff}"))
        if rec["dispositions"] != base["dispositions"]:
            out.append(V("subscriber_changed_outcome", case["kind"], f"{subset}/dispositions", f"dispositions {rec['dispositions'][:6]} vs {base['dispositions'][:6]}"))
        if rec["final"] != base["final"]:
            out.append(V("subscriber_changed_outcome", case["kind"], f"{subset}/final-state", f"final broker state {rec['final']} vs {base['final']}"))
        tr = [(t["name"], t["nested"], t.get("exc")) for t in rec["truth"]]
        tb = [(t["name"], t["nested"], t.get("exc")) for t in base["truth"]]
        if sorted(map(str, tr)) != sorted(map(str, tb)):
            out.append(V("subscriber_changed_outcome", case["kind"], f"{subset}/operations", f"set of executed operations differs: {len(tr)} vs {len(tb)}"))
    seen, vv = set(), []
    for v in out:
        if (v["rule"], v["context"]) not in seen:
            seen.add((v["rule"], v["context"]))
            vv.append(v)
    r = {"fp": None, "fps": sorted(fps), "viol": vv[:10], "stats": dict(stats)}
    if "recording" in recs and case["cid"] % 4 == 0:
        rec = recs["recording"]
        r["sample"] = {"broker": case["kind"], "connections": case["conns"], "style": rec["style"], "operations": [(t["name"], t["nested"], t["owner"], t.get("exc")) for t in rec["truth"][:14]],
                       "signals": [(s["conn"], s["name"]) for s in rec["signals"][:14]]}
    return r

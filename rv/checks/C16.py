"""C16 - message handles are single-use and respect their category.

(a) every sequence of message-API calls (ack, nack, reject, reschedule, retry, force_retry) up to length 3 on a handle
    obtained through Queue.get_messages, for every category and retry state, judged by a two-state machine
    (fresh/used): expected outcome of each call and expected number of broker calls (0 on a refusal);
(b) inside actors: every sequence (<= 4) of set_result / set_exception / add_callback(sync|async) followed by each of
    the six eager responses: callbacks run in registration order, the result store at the position of the latest
    set_result/set_exception, the rest of the body does not run, nothing else is reported.
"""
from __future__ import annotations

import asyncio
import collections
import itertools
from datetime import datetime, timedelta

LEVEL = "exploration"
EXHAUSTIVE = True
RULE = ("(a) exhaustive: all call sequences of length <= 3 over 6 actions x category {NORMAL, DELAYED, DEAD} x retry budget {left, spent} "
        "on the in-memory broker, length <= 2 on redis/rabbit; (b) exhaustive: all pre-sequences of length <= 3 (quick) / 4 (thorough) over "
        "{set_result, set_exception, sync callback, async callback} x 6 eager actions; evaluation = one API call judged; fingerprint = "
        "(broker, category, budget, sequence); trivial = none")
ASSUMPTIONS = ["Redis and RabbitMQ are wire-level fakes", "broker calls are counted by harness-side recorders at the broker boundary (top level only)"]
EVAL_COUNTER = "calls_judged"
REQUIRED = ["calls_judged", "refusals_checked", "second_actions_checked", "eager_sequences", "callback_orders_checked", "eager_in_dependency", "sequences_with_refused_retry", "category_by_plain_name", "overdrawn_handles", "sequences_with_failing_callback", "sequences_repeating_an_equal_outcome", "failed_attempts_before_the_sequence"]
CASE_TIMEOUT = 120

ACTIONS = ("ack", "nack", "reject", "reschedule", "retry", "force_retry")
BROKER_OP = {"ack": "ack", "nack": "nack", "reject": "reject", "reschedule": "requeue", "retry": "requeue", "force_retry": "requeue"}


def gen_cases(tier, seed):
    cases = []
    for kind in ("mem", "redis", "rabbit"):
        maxlen = 3 if kind == "mem" else 2
        seqs = [s for n in range(1, maxlen + 1) for s in itertools.product(ACTIONS, repeat=n)]
        for cat in ("NORMAL", "DELAYED", "DEAD"):
            for budget in (("left", "spent", "overdrawn") if cat == "NORMAL" else ("left", "spent")):
                chunk = 43 if kind == "mem" else 42
                for i in range(0, len(seqs), chunk):
                    cases.append({"type": "api", "kind": kind, "cat": cat, "budget": budget, "seqs": [list(s) for s in seqs[i:i + chunk]]})
    # the same sequences after an attempt that failed on its way to the broker
    for kind in ("mem", "redis", "rabbit"):
        short = [list(s) for n in (1, 2) for s in itertools.product(ACTIONS, repeat=n)]
        for prelude in ("overflow", "fault"):
            cases.append({"type": "api", "kind": kind, "cat": "NORMAL", "budget": "left", "seqs": short if tier == "thorough" or kind == "mem" else short[:12], "prelude": prelude})
    maxpre = 3 if tier == "quick" else 4
    pres = [p for n in range(0, maxpre + 1) for p in itertools.product("RESA", repeat=n)]
    # ... and with a refused retry ("X": budget spent, ValueError caught, the handle stays usable) somewhere in between
    for n in range(0, maxpre):
        for p in itertools.product("RESA", repeat=n):
            for pos in range(n + 1):
                pres.append(p[:pos] + ("X",) + p[pos:])
    # ... and with ONE callable object registered more than once ("B")
    pres += [tuple(x) for x in ("BBR", "BBE", "BRB", "BAB", "BBRA", "BABR", "ABBR", "RBB", "BBRB")]
    # the same outcome registered again (equal value / the very same exception object), callbacks in between
    pres += [tuple(x) for x in ("rSr", "rAr", "eSe", "eAe", "rr", "ee", "rSrA", "SrAr", "rSeAr", "eSrAe", "rSRAr", "rFr", "rBBr", "eSeSe", "rSrSr")]
    # a failing callback in front of other callbacks and of the result store
    pres += [tuple(x) for x in ("FS", "FA", "FR", "FE", "FSR", "SFR", "FRS", "FFA", "RFS", "AFEA", "FBB")]
    for kind in (("mem",) if tier == "quick" else ("mem", "redis")):
        for i in range(0, len(pres), 17):
            cases.append({"type": "eager", "kind": kind, "pres": ["".join(p) for p in pres[i:i + 17]]})
    return cases


def V(rule, kind, ctx, detail):
    return {"rule": rule, "broker": kind, "context": ctx, "detail": detail}


async def api_sequence(loop, kind, cat, budget, seq, out, stats, fps, prelude=None):
    from repid import Queue
    from repid.message import MessageCategory
    from rv.rigs import Rig

    rig = Rig(kind, loop, latency=None)
    try:
        conn = rig.make_connection("p1")
        await conn.connect()
        mb = conn.message_broker
        await mb.queue_declare("q")
        from repid import Job

        retries = 2 if budget == "left" else 0  # "overdrawn": forced past the budget first (already_tried > max_amount)
        kw = {}
        if cat == "DELAYED":
            kw["deferred_until"] = datetime.now() + timedelta(hours=1)
        await Job("t", queue="q", id_="m1", retries=retries, store_result=False, use_args_bucketer=False, _connection=conn, **kw).enqueue()
        if cat == "DEAD":
            c0 = mb.get_consumer("q", None, None, MessageCategory.NORMAL)
            await c0.start()
            key, _, _ = await asyncio.wait_for(c0.consume(), 10)
            await mb.nack(key)
            await c0.finish()
        q = Queue("q", _connection=conn)
        # the category is a str enum: its plain name is accepted wherever the member is (every second sequence uses it)
        plain_name = sum(map(len, seq)) % 2 == 1
        stats["category_by_plain_name" if plain_name else "category_by_enum_member"] += 1
        agen = q.get_messages(category=cat if plain_name else MessageCategory(cat))
        msg = await asyncio.wait_for(agen.__anext__(), 10)
        if budget == "overdrawn":
            await msg.force_retry(timedelta(0))  # back in the queue at once, one attempt beyond its budget of 0
            msg = await asyncio.wait_for(agen.__anext__(), 10)
            stats["overdrawn_handles"] += 1
            if msg.parameters.retries.already_tried <= msg.parameters.retries.max_amount:
                out.append(V("wrong_broker_calls", kind, "force_retry/counter", f"after a forced retry of a job with retries=0 the redelivered message carries already_tried={msg.parameters.retries.already_tried}"))
            budget = "spent"
        used = False
        ctxb = f"{cat}/{budget}"
        if prelude is not None:
            # an attempt that does not go through - the broker is told nothing - leaves the handle as it was
            n0 = len(rig.log.events)
            what = None
            if prelude == "overflow":
                try:
                    await msg.retry(timedelta.max)
                    what = "retry(timedelta.max) succeeded"
                except OverflowError:
                    pass
                except Exception as e:  # noqa: BLE001
                    what = f"retry(timedelta.max) raised {type(e).__name__}: {e}"
            else:
                first = seq[0]
                mw = getattr(mb, BROKER_OP[first])
                orig_fn = mw.fn

                async def down(*a, **k):
                    raise ConnectionError("broker is down (injected)")

                mw.fn = down
                try:
                    await getattr(msg, first)()
                    what = f"{first}() succeeded although the broker call raised"
                except ConnectionError:
                    pass
                except Exception as e:  # noqa: BLE001
                    what = f"{first}() with the broker down raised {type(e).__name__}: {e}"
                finally:
                    mw.fn = orig_fn
            stats["failed_attempts_before_the_sequence"] += 1
            if what is not None:
                out.append(V("wrong_exception", kind, f"failed-attempt/{prelude}", f"{what} ({ctxb})"))
            elif msg.read_only:
                out.append(V("refusal_consumed_handle", kind, f"failed-attempt/{prelude}", f"an action on a {cat} message failed before the broker was told anything ({'next_retry=timedelta.max' if prelude == 'overflow' else 'the broker call raised ConnectionError'}); "
                                                                                          f"no action has succeeded, yet the handle is read-only"))
        for i, action in enumerate(seq):
            n0 = len(rig.log.events)
            err = None
            try:
                await asyncio.wait_for(getattr(msg, action)(), 10)
            except ValueError as e:
                err = e
            except Exception as e:  # noqa: BLE001
                out.append(V("wrong_exception", kind, f"{action}", f"{list(seq)}[{i}] on {ctxb}: raised {type(e).__name__}: {e}"))
                break
            # (a refused call must not leave work behind that touches the broker a moment later either)
            await asyncio.sleep(0.02)
            calls = [e for e in rig.log.events[n0:] if e.get("k") == "call" and e.get("depth") == 0 and e.get("op") in ("ack", "nack", "reject", "requeue", "enqueue")]
            stats["calls_judged"] += 1
            where = f"sequence {list(seq)} step {i} ({action}) on a {cat} message, retry budget {budget}"
            if used:
                stats["second_actions_checked"] += 1
                if err is None:
                    out.append(V("second_action_succeeded", kind, action, f"{where}: succeeded although an earlier action had succeeded"))
                if calls:
                    out.append(V("refusal_touched_broker", kind, action, f"{where}: refused call still made broker calls {[c['op'] for c in calls]}"))
                continue
            refuse_cat = action in ("nack", "retry", "force_retry") and cat != "NORMAL"
            refuse_budget = action == "retry" and budget == "spent" and not refuse_cat
            if refuse_cat or refuse_budget:
                stats["refusals_checked"] += 1
                if err is None:
                    out.append(V("category_not_refused" if refuse_cat else "budget_not_refused", kind, action, f"{where}: succeeded, expected a ValueError"))
                    used = True
                elif calls:
                    out.append(V("refusal_touched_broker", kind, action, f"{where}: refused but made broker calls {[c['op'] for c in calls]}"))
                if err is not None and msg.read_only:
                    out.append(V("refusal_consumed_handle", kind, action, f"{where}: refused, yet the handle is now read-only"))
                    used = True
                continue
            # must succeed with exactly one broker call of the right kind
            if err is not None:
                out.append(V("spurious_refusal", kind, action, f"{where}: raised {err!r} on a fresh handle"))
                continue
            ops = [c["op"] for c in calls]
            if ops != [BROKER_OP[action]]:
                out.append(V("wrong_broker_calls", kind, action, f"{where}: broker calls {ops}, expected [{BROKER_OP[action]}]"))
            if not msg.read_only:
                out.append(V("second_action_succeeded", kind, action + "/flag", f"{where}: succeeded but the handle is not read-only"))
            used = True
        fps.add(f"{kind}/{cat}/{budget}/{','.join(seq)}")
        await agen.aclose()
        await conn.disconnect()
    finally:
        rig.close()


async def eager_sequences(loop, kind, pres, out, stats, fps, samples):
    from rv.wl import World, run_worker

    w = World(loop, kind, converter="basic", seed=1, latency=None)
    try:
        await w.open()
        r = w.router()
        w.scripted_actor(r, "act")
        await w.conn.message_broker.queue_declare("default")
        plan = {}
        n = 0
        for pre in pres:
            for action in ACTIONS:
                id_ = f"e{n:04d}"
                n += 1
                steps_pre = []
                ci = 0
                if "X" in pre and action == "retry":
                    continue  # (a second refused retry would end the execution as an ordinary failure)
                for ch in pre:
                    if ch == "X":
                        steps_pre.append(["refused_retry"])
                    elif ch == "R":
                        steps_pre.append(["set_result", {"v": len(steps_pre)}])
                    elif ch == "E":
                        steps_pre.append(["set_exception", "KeyError", f"x{len(steps_pre)}"])
                    elif ch == "r":
                        # the SAME value as every other "r" of the sequence (an actor confirming its result)
                        steps_pre.append(["set_result", {"v": "same"}])
                    elif ch == "e":
                        steps_pre.append(["set_exception_same", "KeyError", "same"])
                    elif ch == "F":
                        # a callback that fails: logged, and everything registered after it still happens
                        ci += 1
                        steps_pre.append(["callback", f"c{ci}-raise-{'async' if ci % 2 else 'sync'}"])
                    else:
                        ci += 1
                        steps_pre.append(["callback", f"c{ci}-{'async' if ch == 'A' else ('shared' if ch == 'B' else 'sync')}"])
                # (a rejected / period-less rescheduled message comes straight back: that execution answers through ITS handle,
                # while the first execution's handle is still referenced somewhere)
                st = {"do": "eager", "action": action, "pre": steps_pre, "keep_handle": True, "then": {"do": "eager", "action": "ack", "pre": [], "keep_handle": True}}
                if action in ("retry", "force_retry"):
                    st["next"] = 3600.0
                plan[id_] = (pre, action)
                await w.job("act", id_, {"by_attempt": [st, {"do": "ok"}]}, retries=0 if "X" in pre else 1, store_result=True, result_id="res-" + id_, timeout=timedelta(seconds=30)).enqueue()
        # eager responses performed inside a dependency provider (through the message handle injected into it)
        from rv.actors import register_guarded_actor

        register_guarded_actor(r, w.log)
        guarded = {}
        for action in ACTIONS:
            id_ = f"g-{action}-{len(pres)}"
            guarded[id_] = action
            await w.job("guarded", id_, {"eager_in_dep": action}, retries=1, store_result=False, timeout=timedelta(seconds=30)).enqueue()
        worker = w.worker([r], tasks_limit=5, graceful_shutdown_time=5.0, handle_signals=[__import__("signal").SIGUSR1])

        def done():
            return len({e["id"] for e in w.log.events if e.get("k") == "actor_eager"}) >= len(plan) and len({e["id"] for e in w.log.events if e.get("k") == "dep_eager"}) >= len(guarded) and not w.inflight

        info = await run_worker(w, worker, until=done, horizon=40.0, poll=0.05)
        if info["exc"] is not None or not info["returned"]:
            out.append(V("worker_died", kind, "run", f"{info}"))
        for id_, action in guarded.items():
            stats["eager_in_dependency"] += 1
            fps.add(f"{kind}/eager-in-dep/{action}")
            ev = [e for e in w.log.events if e.get("id") == id_]
            first = next((e["n"] for e in ev if e["k"] == "dep_eager"), None)
            if first is None:
                out.append(V("harness_or_api_error", kind, "eager-in-dep-not-run", f"{id_} never reached its provider"))
                continue
            nxt = next((e["n"] for e in ev if e["n"] > first and e["k"] == "ret" and e.get("op") == "consume"), 10**12)
            seg = [e for e in ev if first < e["n"] < nxt]
            disp = [e["op"] for e in seg if e["k"] == "call" and e.get("depth") == 0 and e.get("op") in ("ack", "nack", "reject", "requeue")]
            if any(e["k"] == "dep_continued" for e in seg):
                out.append(V("body_continued", kind, f"in-dependency/{action}", f"provider continued after its eager {action}"))
            if any(e["k"] == "actor_start" for e in seg):
                g = next(e.get("guard") for e in seg if e["k"] == "actor_start")
                out.append(V("body_continued", kind, f"in-dependency/{action}/actor-ran", f"a provider answered eagerly ({action}) but the actor body still ran, receiving {g!r} for that dependency"))
            if disp != [BROKER_OP[action]]:
                out.append(V("extra_disposition" if len(disp) > 1 else "wrong_broker_calls", kind, f"in-dependency/{action}", f"eager {action} inside a provider: terminal broker calls {disp}, expected [{BROKER_OP[action]}]"))
        for id_, (pre, action) in plan.items():
            stats["eager_sequences"] += 1
            fps.add(f"{kind}/eager/{pre}/{action}")
            ev = [e for e in w.log.events if e.get("id") in (id_, "res-" + id_)]
            first_eager = next((e["n"] for e in ev if e["k"] == "actor_eager"), None)
            if first_eager is None:
                out.append(V("harness_or_api_error", kind, "eager-not-run", f"{id_} {pre}+{action} never ran"))
                continue
            # until the next delivery of the same id (reject/reschedule bring it back)
            nxt_delivery = next((e["n"] for e in ev if e["n"] > first_eager and e["k"] == "ret" and e.get("op") == "consume"), 10**12)
            seg = [e for e in ev if first_eager < e["n"] < nxt_delivery]
            order = []
            for e in seg:
                if e["k"] == "callback":
                    order.append(e["tag"].split("-")[0])
                elif e["k"] == "call" and e.get("op") == "store_bucket":
                    order.append("store")
            exp = []
            ci = 0
            cbs_before_latest_set = None
            if "F" in pre:
                stats["sequences_with_failing_callback"] += 1
            if "X" in pre:
                stats["sequences_with_refused_retry"] += 1
                if not any(e["k"] == "retry_refused" for e in ev):
                    out.append(V("refusal_missing", kind, "in-actor/retry", f"{pre!r}: retry() with the budget spent was not refused inside the actor"))
            for ch in pre:
                if ch == "X":
                    continue
                if ch in "REre":
                    cbs_before_latest_set = ci
                else:
                    ci += 1
            names = [f"c{i + 1}" for i in range(ci)]
            if cbs_before_latest_set is not None:
                exp = names[:cbs_before_latest_set] + ["store"] + names[cbs_before_latest_set:]
            else:
                exp = names
            stats["callback_orders_checked"] += 1
            ctx = f"{action}"
            if order != exp:
                out.append(V("callback_order", kind, ctx, f"pre-sequence {pre!r} then {action}: observed {order}, expected {exp}"))
            if any(e["k"] == "body_continued" for e in seg):
                out.append(V("body_continued", kind, ctx, f"{pre!r}+{action}: the statement after the eager response ran"))
            disp = [e["op"] for e in seg if e["k"] == "call" and e.get("depth") == 0 and e.get("op") in ("ack", "nack", "reject", "requeue")]
            first_call = [e["op"] for e in ev if e["n"] > first_eager - 1 and e["k"] == "call" and e.get("depth") == 0 and e.get("op") in ("ack", "nack", "reject", "requeue")][:1]
            if first_call != [BROKER_OP[action]]:
                out.append(V("wrong_broker_calls", kind, ctx, f"{pre!r}+{action}: first terminal call {first_call}"))
            if len(disp) > 1:
                out.append(V("extra_disposition", kind, ctx, f"{pre!r}+{action}: terminal calls {disp}"))
            if action in ("reject", "reschedule"):
                stats["second_executions_through_a_fresh_handle"] += 1
                later = [e["op"] for e in ev if e["n"] >= nxt_delivery and e["k"] == "call" and e.get("depth") == 0 and e.get("op") in ("ack", "nack", "reject", "requeue")]
                if later[:1] != ["ack"]:
                    out.append(V("second_action_succeeded" if not later else "wrong_broker_calls", kind, f"{ctx}/redelivered-execution", f"{pre!r}+{action}: the redelivered message's execution answered with ack() through its own handle; terminal calls after the redelivery: {later} (expected ['ack'])"))
            # the stored bucket is the latest set_*
            latest = next((ch.upper() for ch in reversed(pre) if ch in "REre"), None)
            if "r" in pre or "e" in pre:
                stats["sequences_repeating_an_equal_outcome"] += 1
            stores = [e for e in seg if e["k"] == "call" and e.get("op") == "store_bucket"]
            if latest is not None and stores:
                b = stores[-1]["bucket"]
                if b["success"] != (latest == "R"):
                    out.append(V("callback_order", kind, ctx + "/stored", f"{pre!r}: stored success={b['success']} but the latest call was {'set_result' if latest == 'R' else 'set_exception'}"))
            if len(samples) < 2 and len(pre) >= 3:
                samples.append({"pre": pre, "action": action, "observed_order": order})
        stats["unknown_server_commands"] += w.rig.unknown_commands()
    finally:
        await w.close()


def run_case(case):
    from rv.sim import loop as vl

    stats = collections.Counter()
    out, fps, samples = [], set(), []
    if case["type"] == "api":
        for seq in case["seqs"]:
            res = vl.run(lambda loop, seq=seq: api_sequence(loop, case["kind"], case["cat"], case["budget"], seq, out, stats, fps, prelude=case.get("prelude")), max_steps=500_000, seed=1)
            if res.exc is not None:
                out.append(V("harness_or_api_error", case["kind"], "api", f"{seq}: {type(res.exc).__name__}: {res.exc}"))
    else:
        res = vl.run(lambda loop: eager_sequences(loop, case["kind"], case["pres"], out, stats, fps, samples), max_steps=4_000_000, seed=1)
        if res.exc is not None:
            out.append(V("harness_or_api_error", case["kind"], "eager", f"{type(res.exc).__name__}: {res.exc}"))
    seen, vv = set(), []
    for v in out:
        if (v["rule"], v["context"]) not in seen:
            seen.add((v["rule"], v["context"]))
            vv.append(v)
    r = {"fp": None, "fps": sorted(fps), "viol": vv[:8], "stats": dict(stats)}
    if samples:
        r["sample"] = samples[0]
    elif case["type"] == "api" and case["cid"] % 9 == 0:
        r["sample"] = {"broker": case["kind"], "category": case["cat"], "budget": case["budget"], "sequences": case["seqs"][:3]}
    return r

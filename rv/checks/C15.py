"""C15 - within a queue and priority, delivery is first-in first-out.

Distinguishable messages of one priority are enqueued on each broker (own and foreign topics mixed), consumed by a
single consumer in three modes (consume all; steady state with a continuously non-empty backlog; reject and continue);
the monitor compares the delivery sequence with the enqueue order and checks that a returned message is delivered
again before anything enqueued after its return.
"""
from __future__ import annotations

import asyncio
import collections
import random

LEVEL = "exploration"
RULE = ("lengths {1,2,3,9,10,11,25,60} x topic mix {own, alternating, foreign-head, random} x mode {all, steady(backlog>=12, 120 rounds), "
        "reject-and-continue} x priority {0,5,9} x max_unacked x broker; evaluation = one delivery judged; fingerprint = (broker, length, "
        "mix, mode, priority, max_unacked); trivial = length 1")
ASSUMPTIONS = ["Redis and RabbitMQ are wire-level fakes (RabbitMQ: FIFO per priority, requeue to original position)",
               "single priority per run (priority order is randomised by design on redis)", "messages deliverable at enqueue time (no delay)"]
EVAL_COUNTER = "deliveries_judged"
REQUIRED = ["deliveries_judged", "mode_all", "mode_steady", "mode_reject", "returns_judged", "long_backlogs", "stale_delay_messages", "idle_polls_timed_out", "expired_messages_in_the_queue", "consume_calls_cancelled", "mode_pause", "re_enqueued_while_waiting", "messages_with_a_deferral_already_over"]
CASE_TIMEOUT = 120

LENGTHS = [1, 2, 3, 9, 10, 11, 25, 60]
MIXES = ["own", "alt", "foreign_head", "random"]


def gen_cases(tier, seed):
    rnd = random.Random(seed)
    cases = []
    for kind in ("mem", "redis", "rabbit"):
        combos = [(n, mix, mode) for n in LENGTHS for mix in MIXES for mode in ("all", "reject")] + [(n, mix, "steady") for n in (12, 25) for mix in MIXES]
        if tier == "quick":
            # every long (>= fetch window) case, a third of the short ones
            short = [c for c in combos if c[0] < 9]
            rnd.shuffle(short)
            combos = [c for c in combos if c[0] >= 9] + short[:8]
        # polls: the consumer is polled with a timeout on an empty queue (the call is cancelled while idle), bursts arrive later
        combos += [(b, mix, "polls") for b in (2, 3, 7) for mix in (("own", "alt") if tier == "quick" else MIXES)]
        # pause: the consumer is paused for a moment (what a saturated worker does) while messages keep arriving
        combos += [(2, "own", f"pause:{g}") for g in (0.03, 0.07, 0.25)]
        # cancel: a consume() waiting on an empty queue is cancelled k scheduling quanta after a burst has been enqueued
        combos += [(3, "own", f"cancel:{k}") for k in (range(0, 30) if tier == "quick" else range(0, 60))]
        # a producer that enqueues under a fixed id (a nightly report) does so again while the first copy is still waiting,
        # other messages arriving in between: the waiting one keeps its place
        for between in ((1, 4) if tier == "quick" else (1, 2, 4, 12)):
            for started in (False, True):
                cases.append({"type": "reenqueue", "kind": kind, "between": between, "consumer_first": started, "prio": rnd.choice([0, 5, 9]), "seed": rnd.randrange(10**6),
                              "latency": None if kind == "mem" else rnd.choice([None, 0.002]), "n": between, "mix": "own", "mode": "reenqueue"})
        reps = 1 if tier == "quick" else 3
        for rep in range(reps):
            for n, mix, mode in combos:
                cases.append({"kind": kind, "n": n, "mix": mix, "mode": mode, "prio": rnd.choice([0, 5, 9]), "mu": rnd.choice([None, None, 1, 4, 1000]),
                              "seed": rnd.randrange(10**6), "latency": None if kind == "mem" else rnd.choice([None, 0.002])})
                cases[-1]["expired"] = mode in ("all", "steady") and cases[-1]["seed"] % 3 == 0
                cases[-1]["past_until"] = mode in ("all", "steady", "reject") and cases[-1]["seed"] % 2 == 1
    # an application that takes its time between two messages: whatever the consumer has fetched ahead waits in its local buffer
    for kind in ("mem", "redis", "rabbit"):
        for n, mu in ((12, None), (25, None), (25, 8), (60, None)):
            cases.append({"kind": kind, "n": n, "mix": "own", "mode": "all", "prio": rnd.choice([0, 5, 9]), "mu": mu, "seed": rnd.randrange(10**6), "latency": None if kind == "mem" else 0.002, "expired": False,
                          "past_until": False, "slow_app": 0.3})
    # Redis, wire latency: more steady-state runs (a producer's command landing between two commands of the consumer's scan is
    # a matter of phase)
    for rep in range(6 if tier == "quick" else 20):
        for n, mix in ((12, "own"), (25, "own"), (12, "alt")):
            cases.append({"kind": "redis", "n": n, "mix": mix, "mode": "steady", "prio": rnd.choice([0, 5, 9]), "mu": None, "seed": rnd.randrange(10**6), "latency": 0.002, "expired": False, "past_until": False})
    return cases


def V(rule, kind, ctx, detail):
    return {"rule": rule, "broker": kind, "context": ctx, "detail": detail}


async def reenqueue_scenario(loop, case, out, stats, fps):
    from repid.data.priorities import PrioritiesT
    from repid.message import MessageCategory
    from rv.rigs import Rig, key_of

    kind, between = case["kind"], case["between"]
    rig = Rig(kind, loop, latency=case["latency"], seed=case["seed"])
    try:
        conn = rig.make_connection("p1")
        await conn.connect()
        mb = conn.message_broker
        await mb.queue_declare("q")
        P = mb.PARAMETERS_CLASS
        prio = PrioritiesT(case["prio"])

        def key(id_):
            return key_of(conn, id_, "t", "q", priority=prio.value)

        # the consumer is busy with (holds) a first message, so everything below waits in the queue
        cons = mb.get_consumer("q", None, 1, MessageCategory.NORMAL)
        delivered = []
        if case["consumer_first"]:
            await mb.enqueue(key("head"), "h", P())
            await cons.start()
            k0, _, _ = await asyncio.wait_for(cons.consume(), 5.0)
            delivered.append(k0.id_)
        await mb.enqueue(key("nightly"), "first", P())
        for i in range(between):
            await mb.enqueue(key(f"b{i}"), "x", P())
        await mb.enqueue(key("nightly"), "again", P())
        await mb.enqueue(key("tail"), "x", P())
        if case["consumer_first"]:
            await mb.ack(k0)
        else:
            await cons.start()
        while True:
            try:
                k, _pl, _pr = await asyncio.wait_for(cons.consume(), 3.0)
            except asyncio.TimeoutError:
                break
            delivered.append(k.id_)
            await mb.ack(k)
            if len(delivered) > between + 8:
                break
        await cons.finish()
        stats["deliveries_judged"] += len(delivered)
        stats["re_enqueued_while_waiting"] += 1
        fps.add(f"{kind}/reenqueue/{between}/{int(case['consumer_first'])}")
        ctx = "reenqueue"
        if "nightly" not in delivered:
            out.append(V("starved", kind, ctx, f"'nightly' enqueued first (and again after {between} others) was never delivered: {delivered}"))
        else:
            first = delivered.index("nightly")
            over = [d for d in delivered[:first] if d.startswith("b") or d == "tail"]
            if over:
                out.append(V("overtaken", kind, ctx, f"'nightly' was enqueued before {over} (and enqueued again, under the same id, after them while it was still waiting): delivered {delivered}"))
        missing = [f"b{i}" for i in range(between) if f"b{i}" not in delivered] + ([] if "tail" in delivered else ["tail"])
        if missing:
            out.append(V("starved", kind, ctx + "/others", f"{missing} never delivered: {delivered}"))
        stats["unknown_server_commands"] += rig.unknown_commands()
    finally:
        rig.close()


async def scenario(loop, case, out, stats, fps, samples):
    from repid.message import MessageCategory
    from rv.rigs import Rig, key_of

    if case.get("type") == "reenqueue":
        return await reenqueue_scenario(loop, case, out, stats, fps)

    kind, n, mix, mode = case["kind"], case["n"], case["mix"], case["mode"]
    rnd = random.Random(case["seed"])
    rig = Rig(kind, loop, latency=case["latency"], seed=case["seed"])
    try:
        conn = rig.make_connection("p1")
        await conn.connect()
        mb = conn.message_broker
        await mb.queue_declare("q")
        P = mb.PARAMETERS_CLASS
        order = {}  # id -> enqueue index
        own = set()
        seq = 0

        def topic_for(i):
            if mix == "own":
                return "own"
            if mix == "alt":
                return "own" if i % 2 == 0 else "foreign"
            if mix == "foreign_head":
                return "foreign" if i < min(12, max(1, n // 2)) else "own"
            return rnd.choice(["own", "own", "foreign"])

        from datetime import datetime as _dt, timedelta as _td

        from repid.data._parameters import DelayProperties, RetriesProperties

        rnd_pu = random.Random(case["seed"] + 77)  # (its own stream: the other choices of a case stay what they were)
        expired = set()
        stale = set()  # deliverable messages that still carry delay bookkeeping (like a retried or rescheduled message)

        async def enq():
            nonlocal seq
            id_ = f"m{seq:04d}"
            t = topic_for(seq)
            params = P()
            if case.get("expired") and rnd.random() < 0.25:
                # a message whose time-to-live ran out before anybody asked for it: it is dead-lettered on the way, and the
                # order of everything else is what it would have been without it
                params = P(timestamp=_dt.now() - _td(hours=1), ttl=_td(seconds=1))
                expired.add(id_)
            if case.get("past_until") and id_ not in expired and rnd_pu.random() < 0.3:
                # a one-off job whose deferred_until is not in the future (any more) when it is enqueued: deliverable at once,
                # in line like everybody else
                params = P(delay=DelayProperties(delay_until=_dt.now() - _td(seconds=rnd_pu.choice([0.0, 0.5, 5, 3600]))))
                stats["messages_with_a_deferral_already_over"] += 1
            if mode == "reject" and t == "own" and rnd.random() < 0.35:
                params = P(retries=RetriesProperties(max_amount=3, already_tried=1), delay=DelayProperties(next_execution_time=_dt.now() - _td(seconds=rnd.choice([0.5, 5, 60]))))
                stale.add(id_)
            # every fifth body is large (70 KiB): size must not influence the order
            body = f"p{seq}" + ("x" * 70_000 if seq % 5 == 2 else "")
            await mb.enqueue(key_of(conn, id_, t, "q", case["prio"]), body, params)
            order[id_] = seq
            if t == "own" and id_ not in expired:
                own.add(id_)
            seq += 1
            return id_

        if mode != "polls" and not mode.startswith("cancel") and not mode.startswith("pause"):
            for _ in range(n):
                await enq()
        # a rabbit consumer with a topic filter and a small prefetch window can be blocked by foreign messages at the
        # head (see C11); FIFO is about what IS delivered, so give the consumer room there
        mu = case["mu"]
        if kind == "rabbit" and mix != "own" and mu is not None and mu < 1000:
            mu = None
        if mode.startswith("cancel"):
            mu = None  # (a delivery dropped by a cancelled consume() would otherwise fill a small prefetch window for good)
        cons = mb.get_consumer("q", ["own"], mu, MessageCategory.NORMAL)
        await cons.start()
        delivered = []
        returned_at = {}  # id -> enqueue counter at the time of its return
        idle = {"mem": 0.3, "redis": 2.5, "rabbit": 0.6}[kind]
        if kind == "redis" and expired:
            # the Redis consumer dead-letters ONE expired message per polling round (~0.35 s each): a run of expired messages
            # in front of a live one is progress, not a stall - the idle bound grows with the longest such run
            run = longest = 0
            for id_ in sorted(order, key=order.get):
                run = run + 1 if id_ in expired else 0
                longest = max(longest, run)
            idle += 0.6 * longest
            stats["longest_run_of_expired_messages"] = max(stats.get("longest_run_of_expired_messages", 0), longest)

        async def take():
            try:
                key, payload, params = await asyncio.wait_for(cons.consume(), idle)
            except asyncio.TimeoutError:
                return None
            delivered.append(key.id_)
            return key

        if mode == "all":
            stats["mode_all"] += 1
            while True:
                key = await take()
                if key is None:
                    break
                await mb.ack(key)
                if case.get("slow_app"):
                    # an application slower than the consumer's prefetching: the local buffer fills up behind it
                    await asyncio.sleep(case["slow_app"])
        elif mode == "reject":
            stats["mode_reject"] += 1
            rejected = set()
            while True:
                key = await take()
                if key is None:
                    break
                if key.id_ not in rejected and rnd.random() < (0.7 if key.id_ in stale else 0.3):
                    rejected.add(key.id_)
                    await mb.reject(key)
                    returned_at[key.id_] = seq
                    await asyncio.sleep(0.01)
                    if rnd.random() < 0.7:
                        await enq()  # something enqueued after the return
                else:
                    await mb.ack(key)
        elif mode.startswith("pause"):
            stats["mode_pause"] += 1
            gap = float(mode.split(":")[1])
            for rnd_i in range(4):
                await cons.pause()
                await enq()
                await asyncio.sleep(gap)
                await cons.unpause()
                for _ in range(n):
                    await enq()
                    await asyncio.sleep(0.01)
                while True:
                    key = await take()
                    if key is None:
                        break
                    await mb.ack(key)
            # (a delivery the paused consumer bounced was returned to the queue: the server saw it, the ordering rule exempts it)
            if kind == "rabbit":
                for rid_ in set(rig.server.requeued_ids):
                    returned_at.setdefault(rid_, None)
        elif mode.startswith("cancel"):
            stats["mode_cancel"] += 1
            k = int(mode.split(":")[1])
            quantum = (case["latency"] or 0.0) / 4  # loop turns; with wire latency quarter-latency steps (virtual time only moves on timers)
            for rnd_i in range(3):
                if kind == "mem":
                    # the burst is produced by another task while consume() waits
                    pending = loop.create_task(cons.consume())
                    await asyncio.sleep(0.02)

                    async def burst():
                        for _ in range(n):
                            await enq()

                    other = loop.create_task(burst())
                else:
                    # the burst is already in the queue when the consumer (re)subscribes: it arrives back to back
                    await cons.finish()
                    await asyncio.sleep(0.15)
                    for _ in range(n):
                        await enq()
                    pending = loop.create_task(cons.consume())
                    await asyncio.sleep(0.02)
                    other = loop.create_task(cons.start())
                for _ in range(k):
                    await asyncio.sleep(quantum)
                pending.cancel()
                try:
                    got = await pending
                    delivered.append(got[0].id_)
                    await mb.ack(got[0])
                except asyncio.CancelledError:
                    stats["consume_calls_cancelled"] += 1
                await other
                while True:
                    key = await take()
                    if key is None:
                        break
                    await mb.ack(key)
        elif mode == "polls":
            stats["mode_polls"] += 1
            for rnd_i in range(6):
                # an idle poll that times out: consume() is cancelled while it waits on an empty queue
                t_before = len(delivered)
                key = await take()
                if key is not None:
                    await mb.ack(key)  # (a straggler of the previous burst)
                else:
                    stats["idle_polls_timed_out"] += 1
                for _ in range(n):
                    await enq()
                await asyncio.sleep(0.05 + 4 * (case["latency"] or 0))  # the burst has arrived before the next call
                while True:
                    key = await take()
                    if key is None:
                        break
                    await mb.ack(key)
        else:
            stats["mode_steady"] += 1
            for _ in range(120):
                await enq()
                key = await take()
                if key is not None:
                    await mb.ack(key)
            stats["long_backlogs"] += 1
        if n >= 25:
            stats["long_backlogs"] += 1
        await cons.finish()
        # ---- monitor
        ctx = f"{mode}/{mix}"
        fps.add(f"{kind}/{n}/{mix}/{mode}/{case['prio']}/{case['mu']}")
        first = {}
        for pos, id_ in enumerate(delivered):
            first.setdefault(id_, pos)
            if id_ in expired:
                out.append(V("foreign_delivered", kind, ctx + "/expired", f"{id_} had outlived its time-to-live but was delivered"))
            elif id_ not in own:
                out.append(V("foreign_delivered", kind, ctx, f"{id_} has a foreign topic but was delivered"))
        # never-returned messages: delivery order == enqueue order
        seqn = [id_ for id_ in delivered if id_ not in returned_at and id_ not in stale]
        stats["stale_delay_messages"] += len(stale)
        stats["expired_messages_in_the_queue"] += len(expired)
        last = -1
        for id_ in seqn:
            stats["deliveries_judged"] += 1
            if order[id_] < last:
                later = [x for x in seqn if order[x] == last][0]
                out.append(V("overtaken", kind, ctx, f"n={n} mu={case['mu']}: {id_} (enqueued #{order[id_]}) was delivered after {later} (enqueued #{last}); delivery sequence starts {delivered[:14]}"))
                break
            last = order[id_]
        # steady state / all: nothing deliverable may be left behind while later arrivals were delivered
        undelivered = [id_ for id_ in own if id_ not in first]
        if undelivered and delivered:
            newest_delivered = max(order[x] for x in delivered)
            starving = [x for x in undelivered if order[x] < newest_delivered - (14 if mode == "steady" else 0)]
            if starving and mode in ("steady", "all", "polls"):
                out.append(V("starved", kind, ctx, f"n={n}: {sorted(starving)[:5]} never delivered although messages up to #{newest_delivered} were; backlog kept non-empty"))
        if mode.startswith("cancel"):
            snap = rig.snapshot()
            dropped = sorted(i for i in own if i not in first and snap.get(i) == ["held"])
            other = sorted(i for i in own if i not in first and snap.get(i) != ["held"])
            stats["messages_dropped_by_a_cancelled_consume"] += len(dropped)
            if dropped:
                out.append(V("starved", kind, "dropped-by-cancelled-consume", f"cancel after {mode.split(':')[1]} quanta: {dropped} taken from the consumer's local queue by the cancelled consume() and never handed out (still marked in flight)"))
            if other and not dropped:
                out.append(V("starved", kind, ctx, f"{other} never delivered; state {[snap.get(i) for i in other]}"))
        if mode in ("all", "polls") or mode.startswith("pause"):
            pass
        if (mode in ("all", "polls") or mode.startswith("pause")) and set(delivered) != own:
            missing = sorted(own - set(delivered))[:5]
            if missing and not any(v["rule"] == "starved" for v in out):
                out.append(V("starved", kind, ctx, f"consume-all left {missing} undelivered"))
        # returned messages: delivered again before anything enqueued after the return
        for id_, at in returned_at.items():
            if at is None:
                continue
            stats["returns_judged"] += 1
            poss = [i for i, x in enumerate(delivered) if x == id_]
            if len(poss) < 2:
                out.append(V("returned_after_later", kind, ctx, f"{id_} was rejected and never delivered again; sequence {delivered[-10:]}"))
                continue
            second = poss[1]
            # compared with plain messages only: a broker may legitimately serve its due-delayed store before the normal one
            before = [x for x in delivered[poss[0] + 1:second] if order[x] >= at and x not in stale]
            if before:
                out.append(V("returned_after_later", kind, ctx, f"{id_} returned when {at} messages had been enqueued, but {before[:3]} (enqueued later) were delivered before its redelivery"))
        if len(samples) < 1:
            samples.append({"broker": kind, "n": n, "mix": mix, "mode": mode, "delivered_first": delivered[:12]})
        await conn.disconnect()
        stats["unknown_server_commands"] += rig.unknown_commands()
    finally:
        rig.close()


def run_case(case):
    from rv.sim import loop as vl

    stats = collections.Counter()
    out, fps, samples = [], set(), []
    res = vl.run(lambda loop: scenario(loop, case, out, stats, fps, samples), max_steps=4_000_000, seed=case["seed"])
    if res.exc is not None:
        out.append(V("harness_or_api_error", case["kind"], "scenario", f"{type(res.exc).__name__}: {res.exc}"))
    if stats.get("unknown_server_commands"):
        return {"fp": None, "viol": [], "stats": dict(stats), "inconclusive": "fake server saw unknown commands"}
    r = {"fp": None, "fps": sorted(f for f in fps if f.split("/")[1] != "1"), "viol": out[:6], "stats": dict(stats)}
    if samples and case["cid"] % 11 == 0:
        r["sample"] = samples[0]
    return r

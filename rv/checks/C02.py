"""C02 - every delivery ends in exactly one, correct disposition.

A crossed table of actor outcomes x retry budget x attempt position x recurrence x result storing x converter is
run through real Workers (several cells concurrently per run). The monitor pairs every delivery of a message with
the top-level terminal broker calls that follow it and compares them with the disposition ladder.
"""
from __future__ import annotations

import asyncio
import collections
import itertools
import random
from datetime import datetime, timedelta

LEVEL = "exploration"
RULE = ("crossed cells (outcome x retries x attempt position x recurring x store_result x converter), 6-24 cells per worker run, "
        "tasks_limit in {1,3,1000}, brokers mem (all cells) / redis, rabbit (stratified); evaluation = one delivery judged; "
        "fingerprint = (broker, converter, cell tuple, attempt, expected disposition); trivial = delivery without actor start")
ASSUMPTIONS = [
    "Redis and RabbitMQ are wire-level fakes", "virtual time; sync-actor thread hop replaced by an inline executor",
    "a delivery whose actor never started before the stop request is not judged",
    "cron recurrence not exercised (croniter absent); recurrence via deferred_by",
]
EVAL_COUNTER = "deliveries_judged"
REQUIRED = ["deliveries_judged", "exp_ack", "exp_nack", "exp_retry", "exp_reschedule", "exp_eager", "sentinels_acked", "cells_with_unencodable_return", "runs_on_the_default_connection", "redeliveries_compared", "runs_without_a_results_broker", "unprintable_failures_judged", "cells_whose_argument_bucket_is_gone", "answers_given_while_being_cancelled"]
CASE_TIMEOUT = 120

EAGER = ("ack", "nack", "reject", "retry", "force_retry", "reschedule")
FAIL_EXC = ("ValueError", "RuntimeError", "KeyError", "AppTimeout", "ZeroDivisionError", "EmptyErrors", "QuietError", "Unprintable")
POLICY_STEP = 0.25
PERIOD = 3.0


def all_cells():
    outs = ["ok"] + [f"raise:{e}" for e in FAIL_EXC] + ["timeout", "badpayload", "depfail", "lostargs"]
    # the actor returns normally, but a value its converter cannot encode: a failed execution like any other
    outs += [f"badret:{w}" for w in ("set", "bytes", "object", "tuple_key", "complex", "nested")]
    for a in EAGER:
        for v in ("", "res", "exc", "cb", "cbraise"):
            outs.append(f"eager:{a}:{v}")
    # an eager (forced) retry followed by an ordinary failure of the next delivery
    outs += ["eager:force_retry:thenfail", "eager:retry:thenfail", "eager:force_retry:thenfail2"]
    # the execution runs into its time limit and the actor answers for the message itself while it is being cancelled
    outs += [f"cancel_eager:{a}" for a in EAGER]
    # the eager response comes from inside a dependency provider, before the actor body
    outs += [f"depeager:{a}" for a in EAGER]
    cells = []
    for o, N, pos, rec, store in itertools.product(outs, (0, 1, 3), ("first", "middle", "last"), (False, True), (False, True)):
        if pos == "middle" and N < 2:
            continue
        if pos == "last" and N == 0:
            continue
        if o in ("badpayload", "depfail", "lostargs") and pos != "first":
            continue
        if o.startswith("depeager") and (pos != "first" or (o.endswith(":retry") and N == 0)):
            continue
        if o.startswith("cancel_eager") and pos != "first":
            continue
        if o.endswith(":res") or o.endswith(":exc"):
            if not store:
                continue
        cells.append({"o": o, "N": N, "pos": pos, "rec": rec, "store": store})
    return cells


def gen_cases(tier, seed):
    rnd = random.Random(seed)
    cells = all_cells()
    cases = []

    def groups(cs, kind, conv):
        cs = list(cs)
        rnd.shuffle(cs)
        i = 0
        while i < len(cs):
            n = rnd.choice([6, 10, 16, 24])
            cases.append({"kind": kind, "conv": conv, "tl": rnd.choice([1, 3, 1000]), "cells": cs[i:i + n], "seed": rnd.randrange(10**6),
                          "zero_backoff": (i // n) % 3 == 1})  # a policy of no delay: the retry goes straight back to the queue
            i += n

    # directed: retries without back-off on every broker, the AMQP fake handing the new copy out before it confirms the publish
    retry_cells = [dict(c) for c in cells if c["o"] in ("raise:ValueError", "raise:KeyError", "timeout", "eager:retry:", "eager:force_retry:") and c["pos"] in ("first", "middle") and c["N"] >= 1 and not c["rec"]]
    for kind in ("rabbit", "redis", "mem"):
        for tl_ in (3, 1000):
            cases.append({"kind": kind, "conv": "basic", "tl": tl_, "cells": [dict(c) for c in retry_cells[: 14]], "seed": 7 + 20 * tl_, "zero_backoff": True, "dbc": "always"})
    if tier == "quick":
        forced = [c for c in cells if (c["o"] in ("lostargs", "raise:Unprintable") or c["o"].startswith("cancel_eager")) and c["pos"] == "first" and (not c["o"].startswith("cancel_eager") or (c["N"] == 1 and c["store"]))]
        groups(rnd.sample(cells, 420) + [dict(c) for c in forced], "mem", "basic")
        groups(rnd.sample(cells, 160), "mem", "pydantic")
        groups(rnd.sample(cells, 90), "redis", "basic")
        groups(rnd.sample(cells, 90), "rabbit", "basic")
    else:
        for rep in range(3):
            groups(cells, "mem", "basic")
            groups(cells, "mem", "pydantic")
        groups(cells, "redis", "basic")
        groups(cells, "rabbit", "pydantic")
        groups(rnd.sample(cells, 300), "redis", "pydantic")
        groups(rnd.sample(cells, 300), "rabbit", "basic")
    return cases


def V(rule, kind, ctx, detail):
    return {"rule": rule, "broker": kind, "context": ctx, "detail": detail}


def build_script(cell):
    N, pos, o = cell["N"], cell["pos"], cell["o"]
    target = {"first": 0, "middle": N // 2, "last": N}[pos]
    fail = {"do": "raise", "exc": "ValueError"}
    steps = [dict(fail) for _ in range(target)]
    if o == "ok":
        steps.append({"do": "ok", "ret": {"v": 1}})
    elif o.startswith("raise:"):
        steps.append({"do": "raise", "exc": o.split(":")[1]})
    elif o.startswith("badret:"):
        steps.append({"do": "badret", "what": o.split(":")[1]})
    elif o == "timeout":
        steps.append({"do": "ok", "d": 5.0})
    elif o in ("badpayload", "depfail", "lostargs"):
        steps.append({"do": "ok"})
    elif o.startswith("cancel_eager"):
        st = {"do": "eager_on_cancel", "action": o.split(":")[1], "hang": 30.0, "next": POLICY_STEP}
        if st["action"] in ("reject", "reschedule"):
            st["then"] = {"do": "ok", "ret": "second-delivery"}
        steps.append(st)
    elif o.startswith("depeager"):
        return {"eager_in_dep": o.split(":")[1]}
    else:
        _, action, variant = o.split(":")
        st = {"do": "eager", "action": action, "pre": []}
        if variant == "res":
            st["pre"] = [["set_result", {"r": 7}]]
        elif variant == "exc":
            st["pre"] = [["set_exception", "KeyError", "eager-exc"]]
        elif variant == "cb":
            st["pre"] = [["callback", "c1-sync"], ["callback", "c2-async"]]
        elif variant == "cbraise":
            st["pre"] = [["callback", "raise-sync"]]
        if action in ("retry", "force_retry"):
            st["next"] = POLICY_STEP
        if action in ("reject", "reschedule"):
            # a rejected message, and a rescheduled job without a period, comes straight back at the same attempt
            st["then"] = {"do": "ok", "ret": "second-delivery"}
        steps.append(st)
        if variant == "thenfail":
            steps.append({"do": "raise", "exc": "RuntimeError"})
        elif variant == "thenfail2":
            steps.append(dict(st))  # forced once more
            steps.append({"do": "raise", "exc": "RuntimeError"})
    steps.append({"do": "ok", "ret": "after"})
    return {"by_attempt": steps}


def classify_step(cell, st, attempt):
    """-> ('ok'|'fail'|'eager', action)"""
    o = cell["o"]
    if o in ("badpayload", "depfail", "lostargs"):
        return ("fail", None)
    if st["do"] == "ok":
        if st.get("d", 0) > 1.0:
            return ("fail", None)  # exceeds the 1 s execution timeout
        return ("ok", None)
    if st["do"] in ("raise", "badret"):
        return ("fail", None)
    action = st["action"]
    if st["do"] == "eager_on_cancel" and action == "retry" and attempt >= cell["N"]:
        return ("fail", None)  # refused inside the cancellation handler: the execution simply timed out
    if action == "retry" and attempt >= cell["N"]:
        return ("fail", None)  # refused: ValueError inside the actor
    return ("eager", action)


def expected(cell, attempt, nth=1):
    if cell["o"].startswith("depeager"):
        action = cell["o"].split(":")[1]
        if nth == 1 and attempt == 0:
            return {"ack": "ack", "nack": "nack", "reject": "reject", "retry": "requeue:retry", "force_retry": "requeue:retry",
                    "reschedule": "requeue:reschedule"}[action], "eager"
        # later deliveries (after reject / reschedule / the retry's hour-long back-off): the guard lets the actor run
        return ("requeue:reschedule" if cell["rec"] else "ack"), "ladder"
    script = cell["_script"]["by_attempt"]
    st = script[min(attempt, len(script) - 1)]
    if nth > 1 and "then" in st:
        st = st["then"]
    kind, action = classify_step(cell, st, attempt)
    if kind == "eager":
        return {"ack": "ack", "nack": "nack", "reject": "reject", "retry": "requeue:retry", "force_retry": "requeue:retry",
                "reschedule": "requeue:reschedule"}[action], "eager"
    if kind == "fail" and attempt < cell["N"]:
        return "requeue:retry", "ladder"
    if cell["rec"]:
        return "requeue:reschedule", "ladder"
    return ("ack" if kind == "ok" else "nack"), "ladder"


def disposition_kind(e, delivered_tried):
    op = e["op"]
    if op != "requeue":
        return op
    p = e.get("params") or {}
    if p.get("tried") == delivered_tried + 1:
        return "requeue:retry"
    if p.get("tried") == 0:
        return "requeue:reschedule"
    return f"requeue:tried={p.get('tried')}"


async def scenario(loop, case, out, stats, fps, samples):
    from rv.wl import World, run_worker

    kind = case["kind"]
    # every fourth run: nobody is handed the connection, jobs and the worker find it through Repid's default-connection mechanism
    magic = case["seed"] % 4 == 0
    stats["runs_on_the_default_connection" if magic else "runs_with_explicit_connection"] += 1
    # every fifth run: the messages ask for their result to be kept, but this connection has no results broker - the result
    # is lost, the disposition is not
    no_rb = case["seed"] % 5 == 1
    stats["runs_without_a_results_broker" if no_rb else "runs_with_a_results_broker"] += 1
    if no_rb:
        case["cells"] = [c for c in case["cells"] if not (c["o"].endswith(":res") or c["o"].endswith(":exc"))]
    w = World(loop, kind, converter=case["conv"], seed=case["seed"], latency=None if kind == "mem" else 0.001, magic=magic, result_bucket=not no_rb,
              amqp_opts={"deliver_before_confirm": case["dbc"]} if case.get("dbc") and kind == "rabbit" else None)
    try:
        await w.open()
        step = 0.0 if case.get("zero_backoff") else POLICY_STEP
        policy = lambda retry_number=1: timedelta(seconds=step * retry_number)  # noqa: E731
        stats["zero_backoff_runs" if case.get("zero_backoff") else "delayed_backoff_runs"] += 1
        r = w.router(retry_policy=policy)
        w.scripted_actor(r, "act")

        from rv.actors import register_failing_actors, register_guarded_actor

        log = w.log
        register_failing_actors(r, log)
        register_guarded_actor(r, log)
        await w.conn.message_broker.queue_declare("default")
        cells = case["cells"]
        ids = {}
        for i, cell in enumerate(cells):
            cell["_script"] = build_script(cell)
            if cell["o"].startswith("badret"):
                stats["cells_with_unencodable_return"] += 1
            if cell["o"].startswith("cancel_eager"):
                stats["answers_given_while_being_cancelled"] += 1
            id_ = f"c{i:03d}"
            ids[id_] = cell
            name = {"badpayload": "strict", "depfail": "depact"}.get(cell["o"], "guarded" if cell["o"].startswith("depeager") else "act")
            # execution timeouts of a day and more for the cells that are not about timing out (arithmetic on days)
            long_to = [None, timedelta(days=1), timedelta(days=2, seconds=3)][i % 3] if "timeout" not in cell["o"] and not cell["o"].startswith("cancel_eager") else None
            kw = dict(retries=cell["N"], timeout=long_to or timedelta(seconds=1), store_result=cell["store"])
            if cell["rec"]:
                kw["deferred_by"] = timedelta(seconds=PERIOD)
            await w.job(name, id_, cell["_script"], **kw).enqueue()
            if cell["o"] == "lostargs":
                # the arguments were put into the args bucket store, and that bucket is gone by the time the message is
                # delivered (expired, deleted): the actor cannot be called - a failed execution like any other
                await w.conn.args_bucket_broker.delete_bucket(f"args-{id_}")
                stats["cells_whose_argument_bucket_is_gone"] += 1
        nsent = 3
        for i in range(nsent):
            await w.job("act", f"s{i}", {"do": "ok"}, timeout=timedelta(seconds=1), store_result=False,
                        deferred_until=datetime.now() + timedelta(seconds=2.0 + i)).enqueue()
        worker = w.worker([r], tasks_limit=case["tl"], graceful_shutdown_time=8.0, handle_signals=[__import__("signal").SIGUSR1])
        info = await run_worker(w, worker, horizon=11.0)
        if info["exc"] is not None:
            out.append(V("worker_died", kind, "run", f"Worker.run raised {info['exc']!r}"))
        if not info["returned"]:
            out.append(V("worker_died", kind, "no-return", "Worker.run did not return after the stop request"))
        # ---- monitor
        ev = log.events
        per_id = collections.defaultdict(list)
        for e in ev:
            if e.get("id") in ids or str(e.get("id", "")).startswith("s"):
                per_id[e["id"]].append(e)
        for id_, es in per_id.items():
            if id_.startswith("s"):
                if any(e["k"] == "call" and e.get("op") == "ack" and e.get("depth") == 0 for e in es):
                    stats["sentinels_acked"] += 1
                else:
                    out.append(V("other_job_starved", kind, "sentinel", f"sentinel job {id_} was not acknowledged although due at +{2 + int(id_[1:])}s; events: {[ (e['k'], e.get('op')) for e in es][-6:]}"))
                continue
            cell = ids[id_]
            # split into deliveries
            segs = []
            for e in es:
                if e["k"] == "ret" and e.get("op") == "consume":
                    segs.append({"tried": (e.get("params") or {}).get("tried"), "t": e["t"], "disp": [], "starts": 0, "exits": 0, "cont": 0})
                elif segs:
                    s = segs[-1]
                    if e["k"] == "call" and e.get("depth") == 0 and e.get("op") in ("ack", "nack", "reject", "requeue"):
                        s["disp"].append(e)
                    elif e["k"] == "actor_start":
                        s["starts"] += 1
                    elif e["k"] == "actor_exit":
                        s["exits"] += 1
                    elif e["k"] == "body_continued":
                        s["cont"] += 1
            # what comes back is what was put back: the next delivery carries the attempt counter of the requeue (or, after a
            # reject, of the delivery itself) - the per-delivery expectations below trust that counter
            for prev, cur in zip(segs, segs[1:]):
                rq = [e for e in prev["disp"] if e.get("op") == "requeue"]
                want_tried = (rq[-1].get("params") or {}).get("tried") if rq else (prev["tried"] if [e for e in prev["disp"] if e.get("op") == "reject"] else None)
                if want_tried is not None and cur["tried"] is not None:
                    stats["redeliveries_compared"] += 1
                    if cur["tried"] != want_tried:
                        out.append(V("wrong_disposition", kind, "redelivered-with-other-counter", f"{id_} {cell['o']}: put back with already_tried={want_tried} ({'requeue' if rq else 'reject'}), "
                                                                                                    f"delivered again with already_tried={cur['tried']}"))
                        break
            nth_by_attempt = collections.Counter()
            for n, s in enumerate(segs):
                no_actor = cell["o"] in ("badpayload", "depfail", "lostargs") or cell["o"].startswith("depeager")
                if s["starts"] or (cell["o"].startswith("depeager") and s["disp"]):
                    nth_by_attempt[s["tried"]] += 1
                # (a delivery that never reaches an actor - payload refused, provider failing, arguments gone - is over within
                # moments: one that got no answer although the worker went on for another second is judged like any other)
                if s["starts"] == 0 and not s["disp"] and not (no_actor and (n < len(segs) - 1 or s["t"] < info["t_stop"] - 1.0)):
                    stats["deliveries_not_started"] += 1
                    continue
                a = s["tried"]
                exp, why = expected(cell, a, nth_by_attempt[a])
                ctxbase = f"{cell['o'].split(':')[0]}"
                if cell["o"].startswith("eager"):
                    ctxbase = "eager:" + cell["o"].split(":")[1] + (":" + cell["o"].split(":")[2] if cell["o"].split(":")[2] else "")
                if s["starts"] > 1:
                    out.append(V("actor_rerun", kind, ctxbase, f"{id_} attempt {a}: actor started {s['starts']} times for one delivery"))
                if s["cont"]:
                    out.append(V("body_continued", kind, ctxbase, f"{id_}: actor body continued after the eager response"))
                if s["starts"] and not s["exits"] and not s["disp"]:
                    stats["deliveries_unfinished_at_stop"] += 1
                    continue
                stats["deliveries_judged"] += 1
                if cell["o"] == "raise:Unprintable" and a == {"first": 0, "middle": cell["N"] // 2, "last": cell["N"]}[cell["pos"]]:
                    stats["unprintable_failures_judged"] += 1
                got = [disposition_kind(e, a) for e in s["disp"]]
                stats["exp_" + {"ack": "ack", "nack": "nack", "reject": "eager", "requeue:retry": "retry", "requeue:reschedule": "reschedule"}[exp] if why == "ladder" else "exp_eager"] += 1
                fps.add(f"{kind}/{case['conv']}/{cell['o']}/{cell['N']}/{cell['pos']}/{int(cell['rec'])}/{int(cell['store'])}/a{a}/{exp}")
                if not got:
                    out.append(V("no_disposition", kind, ctxbase, f"{id_} {cell['o']} N={cell['N']} attempt {a}: expected {exp}, no terminal broker call followed the delivery"))
                    continue
                if got[0] != exp:
                    out.append(V("wrong_disposition", kind, f"{ctxbase}->{got[0]}", f"{id_} cell={ {k: v for k, v in cell.items() if k != '_script'} } attempt {a}: expected {exp} ({why}), got {got}"))
                if len(got) > 1:
                    out.append(V("extra_disposition", kind, f"after={ctxbase}", f"{id_} cell={ {k: v for k, v in cell.items() if k != '_script'} } attempt {a}: {got} (expected only {exp})"))
                # parameters of a retry/reschedule requeue
                e0 = s["disp"][0]
                if got[0] == exp and exp.startswith("requeue") and why == "ladder":
                    p = e0["params"]
                    tcall = datetime(2040, 1, 1) + timedelta(seconds=e0["t"])
                    nxt = datetime.fromisoformat(p["next"]) if p.get("next") else None
                    if exp == "requeue:retry":
                        want = tcall + policy(a + 1)
                        if nxt is None or abs((nxt - want).total_seconds()) > 1e-5:
                            out.append(V("wrong_disposition", kind, "retry-backoff", f"{id_} attempt {a}: retry requeue next={nxt}, expected {want} = call time + policy({a + 1})"))
                    else:
                        ms = timedelta(milliseconds=1)  # cadence itself is C06's; here: a reschedule, roughly one period ahead
                        if nxt is None or not (tcall - ms < nxt <= tcall + timedelta(seconds=PERIOD) + ms):
                            out.append(V("wrong_disposition", kind, "reschedule-time", f"{id_}: reschedule next={nxt} not in ({tcall}, +{PERIOD}s]"))
                if len(samples) < 2 and n == 0:
                    samples.append({"id": id_, "cell": {k: v for k, v in cell.items() if k != "_script"}, "attempt": a, "expected": exp, "got": got})
        # the terminal action must also have taken effect at the broker: acknowledged = gone, dead-lettered = dead
        await asyncio.sleep(0.3)
        snap = w.rig.snapshot()
        for id_, es in per_id.items():
            if id_.startswith("s") or ids[id_]["rec"]:
                continue
            disp = [e for e in es if e["k"] == "call" and e.get("depth") == 0 and e.get("op") in ("ack", "nack", "reject", "requeue")]
            rets = [e for e in es if e["k"] == "ret" and e.get("depth") == 0 and e.get("op") in ("ack", "nack", "reject", "requeue")]
            if not disp or len(rets) < len(disp):
                continue
            last = disp[-1]["op"]
            place = snap.get(id_, [])
            want = {"ack": [], "nack": ["dead"]}.get(last)
            if want is not None and place != want and not any(e["k"] == "ret" and e.get("op") == "consume" and e["n"] > disp[-1]["n"] for e in es):
                stats["final_places_wrong"] += 1
                out.append(V("disposition_not_effective", kind, f"{last}->{place[0] if place else 'gone'}", f"{id_} {ids[id_]['o']}: the last terminal action was {last}, but the message is at {place} after the run"))
            elif want is not None:
                stats["final_places_checked"] += 1
        loops = w.events("delivery_loop")
        if loops:
            out.append(V("delivery_loop", kind, ids.get(loops[0]["id"], {}).get("o", "?"), f"{loops[0]['id']} attempt {loops[0]['attempt']} was delivered more than {w.loop_cap} times"))
        stats["max_inflight"] = max(stats.get("max_inflight", 0), w.max_inflight)
        if w.max_inflight > case["tl"]:
            out.append(V("inv:slots", kind, "max_inflight", f"{w.max_inflight} actors in flight with tasks_limit={case['tl']}"))
        if w.stale_deps:
            out.append(V("inv:stale_message_dependency", kind, "actor", f"the actor's message dependency did not describe the delivery it ran for: {w.stale_deps[:3]}"))
        stats["unknown_server_commands"] += w.rig.unknown_commands()
    finally:
        await w.close()


def run_case(case):
    from rv.sim import loop as vl

    stats = collections.Counter()
    out, fps, samples = [], set(), []
    res = vl.run(lambda loop: scenario(loop, case, out, stats, fps, samples), max_steps=4_000_000, seed=case["seed"])
    if res.exc is not None:
        if isinstance(res.exc, vl.StepLimit):
            return {"fp": None, "viol": [], "stats": dict(stats), "inconclusive": str(res.exc)}
        out.append(V("harness_or_api_error", case["kind"], "scenario", f"{type(res.exc).__name__}: {res.exc}"))
    # (a result that cannot be written down - no results broker on this connection, a failure without a printable form - ends
    # the per-message task with that error AFTER the disposition; only the disposition is this property's subject)
    late = ("Results bucket broker is not configured", "no printable form")
    stats["result_store_errors_after_the_disposition"] += sum(1 for e in res.exc_log if any(x in str(e.get("exception")) for x in late))
    loopexc = [e for e in res.exc_log if "callback failed" not in str(e) and not any(x in str(e.get("exception")) for x in late)]
    if loopexc:
        stats["loop_exceptions"] += len(loopexc)
        out.append(V("inv:loop", case["kind"], "unhandled", f"event loop reported: {loopexc[:2]}"))
    if stats.get("unknown_server_commands"):
        return {"fp": None, "viol": [], "stats": dict(stats), "inconclusive": "fake server saw unknown commands"}
    mi = stats.pop("max_inflight", 0)
    r = {"fp": None, "fps": sorted(fps), "viol": out[:8], "stats": dict(stats), "sets": {"max_inflight_seen": [str(mi)]}}
    if samples and case["cid"] % 10 == 0:
        r["sample"] = {"broker": case["kind"], "converter": case["conv"], "tasks_limit": case["tl"], "deliveries": samples}
    return r

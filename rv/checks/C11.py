"""C11 - a job reaches exactly the actor it names, only through that actor's queue.

Random sets of routers with arbitrary (name, queue) registrations (overrides within and across routers) are included
into real Workers; jobs over the full (name, queue) product - own and foreign - are enqueued interleaved. Every actor
start is attributed to the registration that ran it; foreign messages are audited in the broker afterwards.
"""
from __future__ import annotations

import asyncio
import collections
import random
from datetime import timedelta

LEVEL = "exploration"
RULE = ("random registration tables (<=4 routers, <=6 names, <=3 queues, overrides) x jobs over the (name, queue) product with own/foreign "
        "interleaving x tasks_limit {1,3,1000} x broker; plus two workers with disjoint topics on one queue; evaluation = one job judged "
        "(executed by whom / left where); fingerprint = (broker, canonical registration table, job table, tasks_limit); trivial = tables "
        "without any foreign or overridden entry")
ASSUMPTIONS = ["Redis and RabbitMQ are wire-level fakes (RabbitMQ: requeue returns a message to its original position)", "virtual time",
               "own messages behind foreign ones must be executed within 20 s + 1 s per message of virtual time"]
EVAL_COUNTER = "jobs_judged"
REQUIRED = ["jobs_judged", "own_executed", "foreign_left_alone", "overrides_across_queues", "two_worker_runs", "tables_with_bystander_workers", "crowded_queues", "pipeline_runs", "same_instant_runs", "busy_foreign_runs"]
CASE_TIMEOUT = 150

NAMES = ["alpha", "alpha2", "al", "beta", "gamma", "delta"]  # names that are prefixes of each other: topic filters must match whole names
QUEUES = ["qa", "qa2", "q"]  # likewise for queue names (broker key prefixes)


def gen_cases(tier, seed):
    rnd = random.Random(seed)
    cases = []
    for kind in ("mem", "redis", "rabbit"):
        n = {"quick": 26 if kind == "mem" else 10, "thorough": 260 if kind == "mem" else 90}[tier]
        for i in range(n):
            nr = rnd.randint(1, 4)
            regs = []  # (router index, name, queue)
            for ri in range(nr):
                for _ in range(rnd.randint(1, 4)):
                    regs.append([ri, rnd.choice(NAMES[: rnd.choice([2, 4, 6])]), rnd.choice(QUEUES[: rnd.choice([1, 2, 3])])])
            if i % 3 == 0:  # force an override that moves a name to another queue
                ri, name, q = regs[0]
                regs.append([nr - 1, name, next(x for x in QUEUES if x != q)])
            # every third table: the worker under test serves only the first routers, while other Worker objects built
            # from the same Router objects (all of them / the rest) exist in the process - they must not influence it
            sub = rnd.randint(1, nr) if (i % 3 == 1 and nr > 1) else None
            crowd = rnd.choice([10, 12, 21]) if i % 5 == 2 else None
            cases.append({"type": "table", "kind": kind, "regs": regs, "sub": sub, "crowd": crowd, "tl": 1000 if crowd else rnd.choice([1, 3, 1000]), "seed": rnd.randrange(10**6),
                          "latency": None if kind == "mem" else rnd.choice([None, 0.002])})
        # pipelines: worker 1 idles next to messages of worker 2's topic; worker 2 starts later and its actor hands a follow-up
        # job for worker 1's topic to the same queue (one foreign message leaves, one own arrives, between two looks)
        for i in range({"quick": 3, "thorough": 12}[tier]):
            cases.append({"type": "two", "chain": True, "kind": kind, "n": rnd.choice([1, 2, 3]), "tl": rnd.choice([1, 3, 1000]), "seed": rnd.randrange(10**6),
                          "latency": None if kind == "mem" else rnd.choice([None, 0.002]), "lag": rnd.choice([0.0505, 0.2, 1.3])})
        # the other worker's jobs run for a long time: its in-flight messages are no business of this worker's window
        for tl in ((1, 2) if tier == "quick" else (1, 2, 3)):
            cases.append({"type": "two", "busy_foreign": True, "kind": kind, "n": 5, "tl": tl, "seed": rnd.randrange(10**6), "latency": None if kind == "mem" else 0.002})
        for i in range({"quick": 2, "thorough": 8}[tier]):
            cases.append({"type": "two", "same_due": True, "kind": kind, "n": rnd.choice([2, 4, 7]), "tl": rnd.choice([1, 3, 1000]), "seed": rnd.randrange(10**6),
                          "latency": None if kind == "mem" else rnd.choice([None, 0.002])})
        for i in range({"quick": 4, "thorough": 30}[tier]):
            cases.append({"type": "two", "kind": kind, "n": rnd.choice([6, 14]), "tl": rnd.choice([1, 3, 1000]), "seed": rnd.randrange(10**6),
                          "latency": None if kind == "mem" else rnd.choice([None, 0.002])})
    return cases


def V(rule, kind, ctx, detail):
    return {"rule": rule, "broker": kind, "context": ctx, "detail": detail}


async def table_scenario(loop, case, out, stats, fps, samples):
    from rv.wl import World, run_worker

    kind, regs, tl = case["kind"], case["regs"], case["tl"]
    rnd = random.Random(case["seed"])
    w = World(loop, kind, converter="basic", seed=case["seed"], latency=case["latency"])
    try:
        await w.open()
        nr = max(r[0] for r in regs) + 1
        routers = [w.router() for _ in range(nr)]
        # reference model: registrations in order inside each router, then routers included in order; last one wins
        per_router = [collections.OrderedDict() for _ in range(nr)]
        for idx, (ri, name, q) in enumerate(regs):
            tag = f"r{ri}.{idx}:{name}@{q}"
            w.scripted_actor(routers[ri], name, queue=q, tag=tag)
            per_router[ri][name] = (q, tag)
        winning = {}
        sub = case.get("sub")
        under_test = routers if sub is None else routers[:sub]
        for ri in range(len(under_test)):
            for name, (q, tag) in per_router[ri].items():
                winning[name] = (q, tag)
        bystanders = []
        if sub is not None:
            bystanders.append(w.worker(routers, tasks_limit=tl, handle_signals=[]))  # built first, never run
            stats["tables_with_bystander_workers"] += 1
        worker = w.worker(under_test, tasks_limit=tl, graceful_shutdown_time=5.0, handle_signals=[__import__("signal").SIGUSR1])
        if sub is not None and sub < nr:
            bystanders.append(w.worker(routers[sub:], tasks_limit=tl, handle_signals=[]))
        # union of actors, last registration wins
        got_actors = {n: a.queue for n, a in worker.actors.items()}
        want_actors = {n: q for n, (q, _) in winning.items()}
        if got_actors != want_actors:
            out.append(V("union_mismatch", kind, "actors", f"Worker.actors {got_actors} != last-wins union {want_actors}"))
        served = {q for q, _ in winning.values()}
        moved = any(len({q for (ri, n2, q) in regs if n2 == name and ri < len(under_test)}) > 1 for name in winning)
        if moved:
            stats["overrides_across_queues"] += 1
        # declare every queue we will enqueue into (foreign queues included)
        for q in QUEUES:
            await w.conn.message_broker.queue_declare(q)
        jobs = {}
        combos = [(n, q) for n in NAMES for q in QUEUES]
        rnd.shuffle(combos)
        combos = combos[: rnd.randint(6, 18)]
        # make sure own messages sit behind foreign ones
        combos.sort(key=lambda nq: 0 if (nq[0] not in winning or winning[nq[0]][0] != nq[1]) else rnd.choice([0, 1]))
        if case.get("crowd") and winning:
            # a dozen messages nobody here has an actor for, all in ONE served queue and all older than the worker's own
            # (more than any fetch window); the worker has room for all of them (tasks_limit 1000)
            cq = sorted({q for q, _ in winning.values()})[0]
            own_name = next(n for n, (q, _) in winning.items() if q == cq)
            combos = [("nobody_" + str(k), cq) for k in range(case["crowd"])] + [(own_name, cq), (own_name, cq)] + combos[:4]
            stats["crowded_queues"] += 1
        for i, (name, q) in enumerate(combos):
            id_ = f"j{i:03d}"
            own = name in winning and winning[name][0] == q
            jobs[id_] = {"name": name, "queue": q, "own": own}
            await w.job(name, id_, {"do": "ok", "d": rnd.choice([0.0, 0.05])}, queue=q, retries=1, timeout=timedelta(seconds=30), store_result=False).enqueue()
        n_own = sum(1 for j in jobs.values() if j["own"])

        def done():
            return len({e["id"] for e in w.log.events if e.get("k") == "call" and e.get("depth") == 0 and e.get("op") == "ack"}) >= n_own

        info = await run_worker(w, worker, until=done, horizon=20.0 + len(jobs), poll=0.1)
        if info["exc"] is not None or not info["returned"]:
            out.append(V("worker_died", kind, "run", f"{info}"))
        await asyncio.sleep(0.5)
        snap = w.rig.snapshot()
        starts = collections.defaultdict(list)
        for e in w.events("actor_start"):
            starts[e["id"]].append(e)
        canon = sorted((ri, n, q) for ri, n, q in regs)
        any_foreign = any(not j["own"] for j in jobs.values())
        if any_foreign or moved:
            fps.add(f"{kind}/{canon}/{sorted((j['name'], j['queue']) for j in jobs.values())}/{tl}")
        for id_, j in jobs.items():
            stats["jobs_judged"] += 1
            ss = starts.get(id_, [])
            ctx = f"tl={'inf' if tl >= 1000 else tl}"
            if j["own"]:
                if not ss:
                    rule = "blocked_by_foreign" if any_foreign else "own_not_executed"
                    nforeign = sum(1 for x in jobs.values() if not x["own"] and x["queue"] == j["queue"])
                    if rule == "blocked_by_foreign":
                        ctx = "prefetch-window<=foreign-messages" if tl <= nforeign else f"prefetch-window>foreign-messages"
                    out.append(V(rule, kind, ctx, f"{id_} ({j['name']}@{j['queue']}) has an actor in this worker but was not executed within {20 + len(jobs)}s; state {snap.get(id_)}; foreign messages in its queue: {[k for k, x in jobs.items() if not x['own'] and x['queue'] == j['queue']]}"))
                    continue
                stats["own_executed"] += 1
                if ss[0]["reg"] != winning[j["name"]][1]:
                    out.append(V("wrong_actor", kind, ctx, f"{id_} ({j['name']}@{j['queue']}) was executed by registration {ss[0]['reg']}, the winning one is {winning[j['name']][1]}"))
                if ss[0]["queue"] != j["queue"] or ss[0]["topic"] != j["name"]:
                    out.append(V("wrong_actor", kind, ctx, f"{id_}: actor saw key {ss[0]['queue']}/{ss[0]['topic']}, job was {j['queue']}/{j['name']}"))
            else:
                if ss:
                    why = "wrong_queue" if j["name"] in winning else "foreign_executed"
                    out.append(V(why, kind, ctx, f"{id_} ({j['name']}@{j['queue']}) has no actor in this worker for that queue (registrations of {j['name']}: {[(ri, q) for ri, n2, q in regs if n2 == j['name']]}, winning queue {winning.get(j['name'], ('-',))[0]}) but was executed by {ss[0]['reg']}"))
                    continue
                place = snap.get(id_, [])
                if place != ["waiting"]:
                    out.append(V("foreign_moved", kind, f"place={place[0] if place else 'nowhere'}", f"foreign {id_} ({j['name']}@{j['queue']}; served queues {sorted(served)}) is at {place} after the run"))
                    continue
                st = w.rig.stored(id_)
                if st is not None and st[1] is not None and st[1]["tried"] != 0:
                    out.append(V("foreign_moved", kind, "counter", f"foreign {id_} carries already_tried={st[1]['tried']}"))
                    continue
                stats["foreign_left_alone"] += 1
        if len(samples) < 1:
            samples.append({"broker": kind, "registrations": regs, "winning": {n: q for n, (q, _) in winning.items()}, "jobs": [(j["name"], j["queue"], j["own"]) for j in jobs.values()][:10], "tasks_limit": tl})
        stats["unknown_server_commands"] += w.rig.unknown_commands()
    finally:
        await w.close()


async def two_scenario(loop, case, out, stats, fps, samples):
    """Two workers with disjoint topics on ONE queue: every message is executed exactly once, by the right one."""
    from rv.wl import World, fire_stop

    kind = case["kind"]
    rnd = random.Random(case["seed"])
    w = World(loop, kind, converter="basic", seed=case["seed"], latency=case["latency"])
    try:
        await w.open()
        conn2 = w.conn if kind == "mem" else w.rig.make_connection("w2")
        if kind != "mem":
            await conn2.connect()
        r1, r2 = w.router(), w.router()
        w.scripted_actor(r1, "alpha", queue="shared", tag="w1:alpha")
        chain = case.get("chain")
        if chain:
            from rv.actors import register_chain_actor

            register_chain_actor(r2, "beta", "shared", w.log, "w2:beta", "alpha", conn2)
        else:
            w.scripted_actor(r2, "beta", queue="shared", tag="w2:beta")
        await w.conn.message_broker.queue_declare("shared")
        from repid import Job, Worker

        jobs = {}
        from datetime import datetime as _dt

        same_due_at = _dt.now() + timedelta(seconds=0.8)
        if case.get("same_due"):
            stats["same_instant_runs"] += 1
        for i in range(case["n"]):
            name = (rnd.choice(["alpha", "beta"]) if not case.get("same_due") else ["alpha", "beta"][i % 2]) if not chain else "beta"
            if case.get("busy_foreign"):
                name = "beta" if i < 3 else "alpha"  # three long foreign jobs first, then this worker's short ones
            id_ = f"j{i:03d}"
            jobs[id_] = name
            if chain:
                jobs[id_ + "-f"] = "alpha"  # the follow-up its actor will enqueue
            kwj = {}
            if case.get("same_due"):
                # every job is deferred to the very same instant (one datetime object's worth): batch imports, cron lines
                kwj["deferred_until"] = same_due_at
            dur = 6.0 if (case.get("busy_foreign") and name == "beta") else 0.02
            await Job(name, id_=id_, queue="shared", args={"script": {"do": "ok", "d": dur}}, store_result=False, use_args_bucketer=False, _connection=w.conn, **kwj).enqueue()
        sig = __import__("signal").SIGUSR1
        wk1 = Worker(routers=[r1], tasks_limit=case["tl"], graceful_shutdown_time=5.0, handle_signals=[sig], _connection=w.conn)
        wk2 = Worker(routers=[r2], tasks_limit=1000 if case.get("busy_foreign") else case["tl"], graceful_shutdown_time=8.0 if case.get("busy_foreign") else 5.0, handle_signals=[], _connection=conn2)
        t1 = loop.create_task(wk1.run())
        if chain:
            await asyncio.sleep(case["lag"])  # worker 1 has looked at the queue (in vain) many times by now
            stats["pipeline_runs"] += 1
        t2 = loop.create_task(wk2.run())
        horizon = loop.time() + 25.0 + case["n"]
        while loop.time() < horizon and len({e["id"] for e in w.log.events if e.get("k") == "call" and e.get("op") == "ack" and e.get("depth") == 0}) < len(jobs):
            await asyncio.sleep(0.1)
        fire_stop(loop)
        for t in (t1, t2):
            try:
                await asyncio.wait_for(asyncio.shield(t), 8.0)
            except BaseException:  # noqa: BLE001
                t.cancel()
        stats["two_worker_runs"] += 1
        fps.add(f"{kind}/two/{case['n']}/{case['tl']}/{sorted(jobs.values())}")
        starts = collections.defaultdict(list)
        for e in w.events("actor_start"):
            starts[e["id"]].append(e)
        ctx = "two-workers" if kind == "rabbit" else f"two-workers/tl={'inf' if case['tl'] >= 1000 else case['tl']}"
        if case.get("busy_foreign"):
            stats["busy_foreign_runs"] += 1
            t_run = min((e["t"] for e in w.events("actor_start")), default=None)
            for id_, name in jobs.items():
                ss = starts.get(id_, [])
                if name == "alpha" and ss and t_run is not None and ss[0]["t"] > t_run + 3.0:
                    out.append(V("blocked_by_foreign", kind, "two-workers" if kind == "rabbit" else "two-workers/foreign-in-flight", f"{id_} (alpha, tasks_limit={case['tl']}) started {ss[0]['t'] - t_run:.2f}s after the other worker's long jobs began: it waited for THEIR executions (6 s each) although its own worker was idle"))
                    break
        if chain and kind != "rabbit":  # (rabbit: the reject-requeue parking of two workers on one queue is a known finding, whatever the jobs)
            ctx = "two-workers/follow-up-job"
        for id_, name in jobs.items():
            stats["jobs_judged"] += 1
            ss = starts.get(id_, [])
            if not ss:
                out.append(V("blocked_by_foreign", kind, ctx, f"{id_} ({name}) not executed by either worker within {25 + case['n']}s; state {w.rig.snapshot().get(id_)}"))
            elif len(ss) > 1:
                out.append(V("foreign_executed", kind, ctx + "/twice", f"{id_} executed {len(ss)} times: {[s['reg'] for s in ss]}"))
            elif ss[0]["reg"].split(":")[1] != name:
                out.append(V("wrong_actor", kind, ctx, f"{id_} ({name}) executed by {ss[0]['reg']}"))
            else:
                stats["own_executed"] += 1
        if kind != "mem":
            try:
                await asyncio.wait_for(conn2.disconnect(), 10)
            except Exception:  # noqa: BLE001
                pass
        stats["unknown_server_commands"] += w.rig.unknown_commands()
    finally:
        await w.close()


def run_case(case):
    from rv.sim import loop as vl

    stats = collections.Counter()
    out, fps, samples = [], set(), []
    fn = table_scenario if case["type"] == "table" else two_scenario
    res = vl.run(lambda loop: fn(loop, case, out, stats, fps, samples), max_steps=8_000_000, seed=case["seed"])
    if res.exc is not None:
        if isinstance(res.exc, vl.StepLimit):
            return {"fp": None, "viol": [], "stats": dict(stats), "inconclusive": str(res.exc)}
        out.append(V("harness_or_api_error", case["kind"], "scenario", f"{type(res.exc).__name__}: {res.exc}"))
    if stats.get("unknown_server_commands"):
        return {"fp": None, "viol": [], "stats": dict(stats), "inconclusive": "fake server saw unknown commands"}
    seen, vv = set(), []
    for v in out:
        if (v["rule"], v["context"]) not in seen:
            seen.add((v["rule"], v["context"]))
            vv.append(v)
    r = {"fp": None, "fps": sorted(fps), "viol": vv[:6], "stats": dict(stats)}
    if samples and case["cid"] % 6 == 0:
        r["sample"] = samples[0]
    return r

"""C03 - stopping or killing a worker at any moment loses no message.

A worker scenario is first run undisturbed to learn at which event-loop steps anything observable happens (broker
calls and returns, payload fetches, actor starts/ends, result stores). Then it is re-run once per injection point
(those steps and their neighbours, plus a seeded sample of the others) with a stop request (signal), and - on brokers
that keep in-flight state outside the process - with process death at that step. Afterwards every message is
classified from the recorded calls and the broker's actual state.
"""
from __future__ import annotations

import asyncio
import collections
import random
from datetime import datetime, timedelta

LEVEL = "fault_enumeration"
RULE = ("scenario = broker x 3-6 jobs (ok / failing-with-retry / result-storing; durations 0, 0.3, 2, 10 s; arguments through the bucket) x "
        "tasks_limit {1,2,1000} x graceful period {0, 0.5, 3}; fault = stop signal or process death injected at loop step k for every k at "
        "which the undisturbed run logged an event, k-1, k+1, plus a seeded sample of other steps; graceful 0 makes the forced "
        "cancellation follow the stop request immediately, so enumerating k enumerates the forced-cancel point over every phase. "
        "evaluation = one (scenario, fault, step) run judged; fingerprint = (scenario, fault kind, suspension signature of the in-flight "
        "tasks at the injection); trivial = injections with no message in flight")
ASSUMPTIONS = ["Redis and RabbitMQ are wire-level fakes", "virtual time; slack after the graceful period: 5 s consumer finish + 1 s health server + 1 s",
               "'completed' = a terminal disposition took effect at the broker; an actor that finished but whose ack was cut off and whose message went back is ordinary at-least-once redelivery",
               "process death = both wire directions cut and every task of the process cancelled; judged from server state only"]
EVAL_COUNTER = "injections_judged"
REQUIRED = ["injections_judged", "stop_injections", "death_injections", "limit_stops", "messages_classified", "inflight_at_injection", "phase_actor_body", "phase_broker_call", "recoveries_checked", "stops_with_open_health_connections", "recoveries_with_a_foreign_long_running_message_in_flight", "recoveries_with_a_rival_poller_on_the_queue"]
CASE_TIMEOUT = 600
SHARD_TIMEOUT = {"quick": 1200, "thorough": 3600}
EXEC_TIMEOUT = 20.0
EPOCH = datetime(2040, 1, 1)


def gen_cases(tier, seed):
    rnd = random.Random(seed)
    cases = []
    nsc = {"quick": {"mem": 5, "redis": 4, "rabbit": 3}, "thorough": {"mem": 16, "redis": 12, "rabbit": 8}}[tier]
    for kind, n in nsc.items():
        for i in range(n):
            jobs = []
            for j in range(rnd.randint(3, 6)):
                jobs.append({"kind": rnd.choice(["ok", "ok", "fail_retry", "result", "fail_nack", "slow_unwind"]), "d": rnd.choice([0.0, 0.3, 0.3, 2.0, 10.0])})
            base = {"kind": kind, "jobs": jobs, "tl": rnd.choice([1, 2, 1000]), "seed": rnd.randrange(10**6), "latency": None if kind == "mem" else rnd.choice([None, 0.002])}
            G = rnd.choice([0.0, 0.0, 0.5, 3.0]) if tier == "quick" else None
            parts = 6 if tier == "quick" else 8
            for g in ([G] if G is not None else [0.0, 0.5, 3.0]):
                for part in range(parts):
                    cases.append(dict(base, fault="stop", graceful=g, sample=0.02 if tier == "quick" else 0.1, part=part, parts=parts))
            if kind != "mem":
                for part in range(parts):
                    # every second scenario: execution timeouts of a day and 20 s (recovery "not before" over days)
                    cases.append(dict(base, fault="death", graceful=3.0, sample=0.01 if tier == "quick" else 0.05, part=part, parts=parts,
                                      exec_timeout=86420.0 if i % 2 == 1 else EXEC_TIMEOUT, bystander=(kind == "redis" and part % 2 == 0), rival=(kind == "redis" and part % 2 == 1)))
            # stop by message limit: the stop instant is set by completions, so vary M, durations and latency instead of the step
            for M in ((1, 2) if tier == "quick" else (1, 2, 3)):
                cases.append(dict(base, fault="limit", graceful=rnd.choice([0.0, 0.5, 3.0]), M=M, sample=0, part=0, parts=1))
    # directed: many executions in flight when the graceful period runs out (forced cancellation of all of them while the
    # consumers are being finished), on every broker
    for kind in ("mem", "redis", "rabbit"):
        # (one of them takes 2 s to unwind once it is cancelled: the worker does not wait for that, nor does the message)
        jobs = [{"kind": k, "d": 10.0} for k in ("ok", "fail_retry", "result", "slow_unwind", "ok")]
        base = {"kind": kind, "jobs": jobs, "tl": 1000, "seed": rnd.randrange(10**6), "latency": None if kind == "mem" else 0.002}
        parts = 3 if tier == "quick" else 6
        for g in ((0.5,) if tier == "quick" else (0.0, 0.5, 3.0)):
            for part in range(parts):
                cases.append(dict(base, fault="stop", graceful=g, sample=0.02 if tier == "quick" else 0.1, part=part, parts=parts))
        cases.append(dict(base, fault="limit", graceful=0.5, M=1, sample=0, part=0, parts=1))
        if kind == "redis":
            # directed: a process dies while holding messages whose execution timeout is a day (and a week) plus 20 s
            for et in (86420.0, 604820.0):
                for part in range(2):
                    cases.append(dict(base, fault="death", graceful=3.0, sample=0.01, part=part, parts=2, exec_timeout=et, bystander=(part == 0)))
        # directed: every kind of disposition (ack, nack, requeue, result store) under an immediate forced cancellation
        jobs = [{"kind": "fail_nack", "d": 0.3}, {"kind": "ok", "d": 0.3}, {"kind": "fail_retry", "d": 0.3}, {"kind": "result", "d": 0.3}, {"kind": "fail_nack", "d": 0.0}]
        base = {"kind": kind, "jobs": jobs, "tl": 1000, "seed": rnd.randrange(10**6), "latency": None if kind == "mem" else 0.002}
        for part in range(parts):
            cases.append(dict(base, fault="stop", graceful=0.0, sample=0.02 if tier == "quick" else 0.1, part=part, parts=parts))
        # directed: the worker serves its health endpoint and a monitoring client keeps connections to it open (idle, half a
        # request) while the worker is stopped: the run still returns in time and every message is cleaned up
        jobs = [{"kind": "ok", "d": 10.0}, {"kind": "fail_retry", "d": 0.3}, {"kind": "ok", "d": 0.3}, {"kind": "result", "d": 10.0}]
        base = {"kind": kind, "jobs": jobs, "tl": 2, "seed": rnd.randrange(10**6), "latency": None if kind == "mem" else 0.002, "health": ["idle", "partial"]}
        hparts = 2 if tier == "quick" else 4
        for g in ((0.5,) if tier == "quick" else (0.0, 0.5)):
            for part in range(hparts):
                cases.append(dict(base, fault="stop", graceful=g, sample=0.02 if tier == "quick" else 0.1, part=part, parts=hparts))
        cases.append(dict(base, fault="limit", graceful=0.5, M=1, sample=0, part=0, parts=1))
    return cases


def V(rule, kind, ctx, detail):
    return {"rule": rule, "broker": kind, "context": ctx, "detail": detail}


def phase_of(sig: str) -> str:
    s = sig
    if "scripted_actor" in s or "body" in s:
        return "actor_body"
    for k in ("requeue", "ack", "nack", "reject", "enqueue"):
        if f".{k}" in s or f"{k}:" in s:
            return "broker_call:" + k
    if "store_bucket" in s or "set_result_bucket" in s:
        return "result_store"
    if "get_bucket" in s or "get_payload" in s:
        return "payload_fetch"
    if "finish" in s:
        return "consumer_finish"
    if "backgroud_consume" in s or "consume" in s:
        return "prefetch_or_consume"
    if "acquire" in s:
        return "slot_acquire"
    return "other"


async def scenario(loop, case, inject_step, info):
    from rv.sim.loop import await_chain, strip_lines
    from rv.wl import World, fire_stop

    kind = case["kind"]
    w = World(loop, kind, converter="basic", seed=case["seed"], latency=case["latency"])
    hc_clients, hc_task = [], None
    rival_task = None
    try:
        await w.open()
        r = w.router(retry_policy=lambda retry_number=1: timedelta(seconds=0.5))
        w.scripted_actor(r, "act")
        await w.conn.message_broker.queue_declare("default")
        if case.get("bystander"):
            # a healthy process elsewhere has been holding a message of another queue for a while; its own time limit (30 days)
            # is far from over - and none of the dying worker's business
            from repid.message import MessageCategory as _MC

            by = w.rig.make_connection("bystander")
            await by.connect()
            await by.message_broker.queue_declare("other")
            await w.job("act", "by0", {"do": "ok"}, queue="other", retries=0, timeout=timedelta(days=30), store_result=False).enqueue()
            by_cons = by.message_broker.get_consumer("other", None, None, _MC.NORMAL)
            await by_cons.start()
            await asyncio.wait_for(by_cons.consume(), 5.0)
            info["bystander_holds"] = True
            await asyncio.sleep(2.2)
        if case.get("rival"):
            # another process polls the same queue and hands back at once whatever it gets (a worker that is being drained):
            # it races the worker's consumer for every message, and dies with nothing worth mentioning in its hands
            from repid.message import MessageCategory as _MC2

            rv_conn = w.rig.make_connection("rival")
            await rv_conn.connect()
            rv_cons = rv_conn.message_broker.get_consumer("default", None, 1, _MC2.NORMAL)

            async def rival_loop():
                await rv_cons.start()
                while True:
                    key_, _pl, _pr = await rv_cons.consume()
                    info["rival_takes"] = info.get("rival_takes", 0) + 1
                    await rv_conn.message_broker.reject(key_)

            rival_task = loop.create_task(rival_loop())
        ids = []
        for i, j in enumerate(case["jobs"]):
            id_ = f"j{i}" if i % 2 == 0 else f"j-{i}"  # (ids, like queue and actor names, may contain dashes)
            ids.append(id_)
            if j["kind"] == "fail_retry":
                script = {"by_attempt": [{"do": "raise", "d": j["d"]}, {"do": "ok", "d": 0.1}]}
            elif j["kind"] == "slow_unwind":
                script = {"do": "hang_cleanup", "hang": j["d"], "cleanup": 2.0}
            elif j["kind"] == "fail_nack":
                script = {"do": "raise", "d": j["d"]}  # no retries left: the disposition is nack
            else:
                script = {"do": "ok", "d": j["d"], "ret": {"v": i}}
            await w.job("act", id_, script, retries=0 if j["kind"] == "fail_nack" else 1, timeout=timedelta(seconds=case.get("exec_timeout", EXEC_TIMEOUT)), store_result=(j["kind"] == "result")).enqueue()
        sig = __import__("signal").SIGUSR1
        wkw = {"messages_limit": case["M"]} if case.get("M") else {}
        if case.get("health"):
            # the worker serves its health endpoint (a real loopback socket, polled by the virtual loop) and a monitoring
            # client keeps connections to it open, idle or with half a request sent, for the whole life of the worker
            import socket as _socket
            from repid.health_check_server import HealthCheckServerSettings

            _s = _socket.socket()
            _s.bind(("127.0.0.1", 0))
            hc_port = _s.getsockname()[1]
            _s.close()
            wkw.update(run_health_check_server=True, health_check_server_settings=HealthCheckServerSettings(address="127.0.0.1", port=hc_port))

            async def hc_client():
                for what in case["health"]:
                    for _ in range(200):
                        try:
                            rd, wr = await asyncio.open_connection("127.0.0.1", hc_port)
                            break
                        except OSError:
                            await asyncio.sleep(0.01)
                    else:
                        return
                    if what == "partial":
                        wr.write(b"GET /healthz HT")
                    hc_clients.append((rd, wr))
                    info["health_clients"] = len(hc_clients)

            hc_task = loop.create_task(hc_client(), name="hc-client")
        worker = w.worker([r], tasks_limit=case["tl"], graceful_shutdown_time=case["graceful"], handle_signals=[sig], **wkw)
        start_step = loop.steps
        info["start_step"] = start_step
        run_task = loop.create_task(worker.run(), name="worker-run")
        injected = {}
        controller = asyncio.current_task()

        def process_tasks():
            server_tasks = set(w.rig.net.server_tasks) if w.rig.net is not None else set()
            return [t for t in asyncio.all_tasks(loop) if t is not controller and t is not hc_task and t not in server_tasks and not t.done()]

        t_begin = loop.time()

        def hook(step):
            if inject_step is None or step != inject_step or injected:
                return
            if loop.time() >= t_begin + 16.0 - 1e-6:
                # the run has been idle up to the undisturbed horizon: this step is the controller's own timeout, not
                # a point in the worker's life (an injection here would be judged against a horizon that has just expired)
                return
            sigs = sorted("/".join(strip_lines(await_chain(t))[-4:]) for t in process_tasks() if t is not run_task)
            injected["t"] = loop.time()
            injected["step"] = step
            injected["sigs"] = sigs
            injected["inflight"] = w.inflight
            injected["held"] = {k: v for k, v in w.rig.snapshot().items() if v == ["held"]}
            if case["fault"] == "stop":
                injected["fired"] = fire_stop(loop)
            else:
                w.rig.kill("w1")
                for t in process_tasks():
                    t.cancel()
                injected["fired"] = True

        loop.step_hook = hook
        horizon = 16.0 if inject_step is None else 16.0 + case["graceful"] + 12.0
        returned = False
        exc = None
        try:
            await asyncio.wait_for(asyncio.shield(run_task), horizon)
            returned = True
        except asyncio.TimeoutError:
            pass
        except asyncio.CancelledError:
            if case["fault"] != "death":
                raise
            returned = True
        except BaseException as e:  # noqa: BLE001
            exc = e
            returned = True
        t_return = loop.time()
        loop.step_hook = None
        info["limit_returned"] = returned
        if inject_step is None and not returned:
            # undisturbed run: stop it ourselves at the horizon
            fire_stop(loop)
            try:
                await asyncio.wait_for(asyncio.shield(run_task), case["graceful"] + 10)
            except BaseException:  # noqa: BLE001
                run_task.cancel()
        if case["fault"] == "death" and inject_step is not None:
            for _ in range(5):
                pend = process_tasks()
                if not pend:
                    break
                for t in pend:
                    t.cancel()
                await asyncio.sleep(0.01)
        await asyncio.sleep(0.4)
        info.update(injected=injected, returned=returned, exc=repr(exc) if exc else None, t_return=t_return, end_step=loop.steps)
        info["event_steps"] = sorted({e["step"] for e in w.log.events if e.get("step", 0) > start_step})
        info["disposition_steps"] = sorted({e["step"] for e in w.log.events if e.get("step", 0) > start_step and e.get("k") == "call"
                                            and e.get("depth") == 0 and e.get("op") in ("ack", "nack", "reject", "requeue")})
        info["double_settled"] = list(getattr(w.rig.server, "precondition_failed", [])) if kind == "rabbit" else []
        info["snapshot"] = w.rig.snapshot()
        info["stored"] = {i: w.rig.stored(i) for i in ids}
        ev = w.log.events
        info["calls"] = {i: [(e["k"], e["op"], (e.get("params") or {}).get("tried")) for e in ev if e.get("id") == i and e.get("depth") == 0 and e["k"] in ("call", "ret", "raise") and e.get("op") in ("ack", "nack", "reject", "requeue")] for i in ids}
        info["starts"] = {i: len([e for e in ev if e.get("k") == "actor_start" and e.get("id") == i]) for i in ids}
        info["exits"] = {i: len([e for e in ev if e.get("k") == "actor_end" and e.get("id") == i]) for i in ids}
        info["delivered"] = {i: [((e.get("params") or {}).get("tried")) for e in ev if e.get("k") == "ret" and e.get("op") == "consume" and e.get("id") == i] for i in ids}
        info["ids"] = ids
        info["unknown"] = w.rig.unknown_commands()
        if kind == "redis":
            info["acked_at_server"] = list(w.rig.server.deleted_message_ids)
            info["processing_scores"] = {k.decode().split(":")[-1]: v for k, v in dict(w.rig.server.d.get(b"processing", {})).items()}
        elif kind == "rabbit":
            info["acked_at_server"] = list(w.rig.server.acked_ids)
        # ---- process death: recovery by another process
        if case["fault"] == "death" and inject_step is not None and injected:
            rec = {}
            info["recovery"] = rec
            held_now = [i for i, v in info["snapshot"].items() if v == ["held"] and i != "by0"]
            rec["held_after_death"] = held_now
            if kind == "redis":
                from repid.message import MessageCategory

                async def sweep(label, seconds):
                    c2 = w.rig.make_connection(label)
                    await c2.connect()  # runs maintenance
                    got = []
                    cons = c2.message_broker.get_consumer("default", None, None, MessageCategory.NORMAL)
                    await cons.start()
                    t_end = loop.time() + seconds
                    while loop.time() < t_end:
                        try:
                            key, _, params = await asyncio.wait_for(cons.consume(), max(0.05, t_end - loop.time()))
                        except asyncio.TimeoutError:
                            break
                        got.append((key.id_, loop.time()))
                        await c2.message_broker.reject(key)  # hand it back: we only look
                        await asyncio.sleep(0.3)
                        if len(got) > 40:
                            break
                    await cons.finish()
                    await c2.disconnect()
                    return got

                rec["t_death"] = injected["t"]
                early = await sweep("r1", 3.0)
                rec["early"] = early
                scores = info.get("processing_scores", {})
                rec["scores"] = scores
                await w.rig.quiesce_wire()
                latest = max(scores.values(), default=EPOCH.timestamp() + injected["t"])
                ET_ = case.get("exec_timeout", EXEC_TIMEOUT)
                t_mid = latest - 2_208_988_800 + ET_ / 2
                if t_mid > loop.time() + 1.0:
                    # half way through the execution timeout: still not deliverable
                    loop.jump_to(t_mid)
                    rec["early"] = early + await sweep("r1b", 3.0)
                    await w.rig.quiesce_wire()
                loop.jump_to(latest - 2_208_988_800 + case.get("exec_timeout", EXEC_TIMEOUT) + 2.5)
                late1 = await sweep("r2", 4.0)
                rec["late"] = late1
                rec["snapshot_after"] = w.rig.snapshot()
    finally:
        if rival_task is not None and not rival_task.done():
            rival_task.cancel()
        if hc_task is not None and not hc_task.done():
            hc_task.cancel()
        for _, wr in hc_clients:
            try:
                wr.close()
            except Exception:  # noqa: BLE001
                pass
        await w.close()


def classify(case, info, out, stats, ctxbase):
    """Post-mortem: every job id against the calls that took effect and the broker's actual state."""
    kind = case["kind"]
    snap = info["snapshot"]
    death = case["fault"] == "death"
    if info.get("double_settled"):
        # seen at the server: one delivery answered twice (ack + reject, ...): "both completed and returned" at the wire
        out.append(V("disposed_and_returned", kind, "settled-twice", f"{ctxbase}: the server received a second settlement for delivery tag(s) {[(t, how) for _, _, t, how in info['double_settled']][:4]} and closed the channel (406)"))
    for i in info["ids"]:
        stats["messages_classified"] += 1
        places = snap.get(i, [])
        calls = info["calls"][i]
        done = [op for k, op, _ in calls if k == "ret"]
        opened = [op for k, op, _ in calls if k == "call"]
        open_ops = list(opened)
        for op in done:
            if op in open_ops:
                open_ops.remove(op)
        for k, op, _ in calls:
            if k == "raise" and op in open_ops:
                open_ops.remove(op)
                open_ops.append(op + "?")  # raised (e.g. cancelled): may or may not have taken effect
        if death:
            acked = i in info.get("acked_at_server", [])
            if len(places) > 1:
                out.append(V("disposed_and_returned", kind, ctxbase + "/death", f"{i} is in {places} after the process died"))
            elif not places and not acked:
                out.append(V("lost", kind, ctxbase + "/death", f"{i} is nowhere after the process died and the server never saw its ack"))
            elif places and acked and places != ["held"] and kind == "redis":
                out.append(V("disposed_and_returned", kind, ctxbase + "/death", f"{i} was acknowledged at the server and is also at {places}"))
            continue
        stored = info["stored"].get(i)
        tried_now = stored[1]["tried"] if stored and stored[1] else None
        last_delivered = info["delivered"][i][-1] if info["delivered"][i] else None
        ctx = ctxbase
        if "ack" in done:
            if places:
                out.append(V("disposed_and_returned", kind, "after-ack", f"{i}: ack returned, yet the message is at {places} (stored: {stored}); calls {calls}"))
            continue
        if "nack" in done:
            if places != ["dead"]:
                out.append(V("disposed_and_returned" if places else "lost", kind, "after-nack", f"{i}: nack returned, message at {places}; calls {calls}"))
            continue
        if len(places) > 1:
            raced = any(k_ == "raise" and op in ("requeue", "nack", "ack") for k_, op, _ in calls) and any(k_ == "ret" and op == "reject" for k_, op, _ in calls)
            out.append(V("disposed_and_returned", kind, "in-flight-call-cancelled+reject" if raced else "duplicate", f"{i} is in {places}; calls {calls}"))
            continue
        if "requeue" in done:
            # retry took effect: queued once with the counter of the last requeue (a later delivery may have moved on)
            if not places and not any(op.startswith("ack") for op in open_ops):
                out.append(V("lost", kind, "after-requeue", f"{i}: requeue returned, message nowhere; calls {calls}"))
            elif places == ["held"]:
                mech = "never-started" if info["starts"][i] == info["exits"][i] + sum(1 for k_, op, _ in calls if k_ == "ret" and op == "requeue") or info["starts"][i] <= len(done) else "after-requeue"
                out.append(V("stuck_inflight", kind, mech, f"{i} (redelivered after its retry requeue) still marked in-flight after run() returned; calls {calls}"))
            continue
        # no terminal disposition is known to have taken effect
        maybe = [op.rstrip("?") for op in open_ops]
        if not places:
            if "ack" in maybe or (kind != "mem" and "requeue" in maybe):
                continue  # an interrupted ack / non-atomic requeue may have taken effect (C01 judges the atomicity)
            out.append(V("lost", kind, info["phase"].split("+")[0], f"{i} is nowhere after run() returned and no terminal action took effect; calls {calls}; delivered {info['delivered'][i]}"))
        elif places == ["held"]:
            mech = "never-started" if info["starts"][i] == 0 else ("started-and-cancelled" if info["starts"][i] > info["exits"][i] else "finished-not-disposed")
            out.append(V("stuck_inflight", kind, mech, f"{i} still marked in-flight after run() returned (delivered {len(info['delivered'][i])}x, started {info['starts'][i]}x); calls {calls}"))
        elif places == ["dead"] and "nack" not in maybe:
            out.append(V("lost", kind, "dead-lettered", f"{i} dead-lettered without a failed final attempt; calls {calls}"))
        elif places in (["waiting"], ["delayed"]):
            if tried_now is not None and last_delivered is not None and tried_now != last_delivered and "requeue" not in maybe:
                out.append(V("counter_changed", kind, "requeued", f"{i} is back in the queue with already_tried={tried_now}, it was delivered with {last_delivered}; calls {calls}"))
            raced = any(k_ == "raise" and op in ("requeue", "nack", "ack") for k_, op, _ in calls) and any(k_ == "ret" and op == "reject" for k_, op, _ in calls)
            if kind == "redis" and stored is None:
                out.append(V("ghost", kind, "in-flight-call-cancelled+reject" if raced else "no-data", f"{i} is queued at {places} but its payload/parameters are gone; calls {calls}"))


def run_case(case):
    from rv.sim import loop as vl

    stats = collections.Counter()
    out, fps = [], set()
    rnd = random.Random(case["seed"] + 7)
    base = {}
    if case["fault"] == "limit":
        # several latency/seed variants of the same scenario; each is one judged "injection" (the M-th completion)
        for variant in range(4):
            c2 = dict(case, seed=case["seed"] + variant, latency=case["latency"] if variant % 2 == 0 or case["kind"] == "mem" else 0.004)
            info = {}
            r2 = vl.run(lambda loop, c2=c2: scenario(loop, c2, None, info), max_steps=3_000_000, seed=c2["seed"])
            if r2.exc is not None or "snapshot" not in info:
                stats["inconclusive_runs"] += 1
                continue
            stats["injections_judged"] += 1
            stats["limit_stops"] += 1
            if info.get("health_clients"):
                stats["stops_with_open_health_connections"] += 1
            info["phase"] = "limit"
            fps.add(f"{case['kind']}/limit/{case['M']}/{case['graceful']}/{variant}/{case['tl']}")
            if not info.get("limit_returned"):
                out.append(V("late_return", case["kind"], "limit/no-return", f"messages_limit={case['M']}: run() had not returned after 16 s"))
            elif info["exc"]:
                out.append(V("late_return", case["kind"], "raised:" + info["exc"].split("(")[0], f"messages_limit={case['M']}: run() raised {info['exc']}"))
            classify(c2, info, out, stats, f"limit/M={case['M']}")
        seen, vv = set(), []
        for v in out:
            key = (v["rule"], v["broker"], v["context"])
            if key not in seen:
                seen.add(key)
                vv.append(v)
        return {"fp": None, "fps": sorted(fps), "viol": vv[:8], "stats": dict(stats)}
    res = vl.run(lambda loop: scenario(loop, case, None, base), max_steps=3_000_000, seed=case["seed"])
    if res.exc is not None or "event_steps" not in base:
        return {"fp": None, "viol": [], "stats": {}, "inconclusive": f"baseline failed: {type(res.exc).__name__}: {res.exc}"}
    if base.get("unknown"):
        return {"fp": None, "viol": [], "stats": {}, "inconclusive": "fake server saw unknown commands"}
    ev_steps = base["event_steps"]
    points = set()
    for s in ev_steps:
        points.update((s - 1, s, s + 1))
    # every step around a disposition call: the stop-to-cancel offset is a few steps, the calls themselves a few more
    for s in base.get("disposition_steps", []):
        points.update(range(s - 8, s + 6))
    lo, hi = base["start_step"] + 1, max(ev_steps) + 2
    others = [s for s in range(lo, hi) if s not in points]
    rnd.shuffle(others)
    points.update(others[: int(len(others) * case["sample"])])
    points = sorted(p for p in points if lo <= p <= hi)
    points = points[case.get("part", 0)::case.get("parts", 1)]
    sig_seen = set()
    sample = None
    for k in points:
        info = {}
        r2 = vl.run(lambda loop: scenario(loop, case, k, info), max_steps=3_000_000, seed=case["seed"])
        inj = info.get("injected") or {}
        if r2.exc is not None:
            if isinstance(r2.exc, vl.StepLimit):
                stats["inconclusive_runs"] += 1
                continue
            out.append(V("harness_or_api_error", case["kind"], case["fault"], f"step {k}: {type(r2.exc).__name__}: {r2.exc}"))
            continue
        if not inj:
            stats["points_after_the_run_ended"] += 1
            continue
        if not inj.get("fired"):
            stats["points_before_signal_handler"] += 1
            continue
        stats["injections_judged"] += 1
        stats[case["fault"] + "_injections"] += 1
        if info.get("health_clients"):
            stats["stops_with_open_health_connections"] += 1
        sig = " | ".join(inj["sigs"])
        phases = sorted({phase_of(s) for s in inj["sigs"]})
        info["phase"] = "+".join(p for p in phases if p not in ("other",)) or "idle"
        for p in phases:
            stats["phase_" + p.split(":")[0]] += 1
        if inj["inflight"] or inj["held"]:
            stats["inflight_at_injection"] += 1
            fps.add(f"{case['kind']}/{case['fault']}/{case['graceful']}/{hash(sig) & 0xffffffff:x}")
        sig_seen.add(sig[:300])
        ctxbase = f"{case['fault']}/G={case['graceful']}"
        if case["fault"] == "stop":
            if not info["returned"]:
                out.append(V("late_return", case["kind"], "no-return", f"stop at step {k} (t={inj['t']:.3f}): run() had not returned {case['graceful'] + 12:.0f}s later; in flight: {inj['sigs'][:3]}"))
            elif info["exc"]:
                out.append(V("late_return", case["kind"], "raised:" + info["exc"].split("(")[0], f"stop at step {k}: run() raised {info['exc']}"))
            elif info["t_return"] - inj["t"] > case["graceful"] + 7.0 + 1e-6:
                out.append(V("late_return", case["kind"], "late", f"stop at step {k}: run() returned {info['t_return'] - inj['t']:.3f}s after the stop request (graceful {case['graceful']} + 7 s slack)"))
        before = len(out)
        classify(case, info, out, stats, ctxbase)
        for v in out[before:]:
            v["detail"] = f"injection at step {k} (t={inj['t']:.3f}, phase {info['phase']}): " + v["detail"]
        rec = info.get("recovery")
        if rec is not None and case["kind"] == "redis":
            stats["recoveries_checked"] += 1
            if case.get("rival"):
                stats["recoveries_with_a_rival_poller_on_the_queue"] += 1
                stats["rival_takes"] += info.get("rival_takes", 0)
            if info.get("bystander_holds"):
                stats["recoveries_with_a_foreign_long_running_message_in_flight"] += 1
                if rec["snapshot_after"].get("by0") != ["held"]:
                    out.append(V("early_recovery", "redis", "death/bystander", f"death at step {k}: the message a healthy process has been holding for a while (time limit 30 days) is at {rec['snapshot_after'].get('by0')} after the recovery"))
            held = set(rec["held_after_death"])
            # "not before": the in-flight mark carries the time the message was taken; recovery is early only when it
            # happens before that time + execution timeout (whole-second marks: 1 s tolerance)
            ET = case.get("exec_timeout", EXEC_TIMEOUT)
            early_ids = [i for i, t in rec["early"] if i in held and t < rec["scores"].get(i, 0) - 2_208_988_800 + ET - 1.0]
            if ET > 86400:
                stats["recoveries_with_timeout_over_a_day"] += 1
            if early_ids:
                out.append(V("early_recovery", "redis", "death", f"death at step {k}: {early_ids} were in flight and became deliverable within 3 s, before their {ET}s execution timeout (scores {rec['scores']})"))
            late_counts = collections.Counter(i for i, t in rec["late"])
            for i in held:
                if i in early_ids or any(x == i for x, _t in rec["early"]):
                    continue
                if late_counts.get(i, 0) == 0 and rec["snapshot_after"].get(i) == ["held"]:
                    out.append(V("no_recovery", "redis", "death", f"death at step {k}: {i} was in flight; after timeout + maintenance it is still not deliverable (state {rec['snapshot_after'].get(i)})"))
            for i, places in rec["snapshot_after"].items():
                if len(places) > 1:
                    out.append(V("double_recovery", "redis", "death", f"death at step {k}: after recovery {i} is in {places}"))
        elif rec is not None:
            stats["recoveries_checked"] += 1
            if rec["held_after_death"]:
                out.append(V("stuck_inflight", case["kind"], "death/connection-closed", f"death at step {k}: {rec['held_after_death']} still unacked after the connection died"))
        if sample is None and inj["inflight"]:
            sample = {"broker": case["kind"], "fault": case["fault"], "graceful": case["graceful"], "step": k, "t": round(inj["t"], 4), "suspended_tasks": inj["sigs"][:6], "final_places": info["snapshot"], "calls": {i: c for i, c in info["calls"].items() if c}}
    seen, vv = set(), []
    for v in out:
        key = (v["rule"], v["broker"], v["context"])
        if key not in seen:
            seen.add(key)
            vv.append(v)
    r = {"fp": None, "fps": sorted(fps), "viol": vv[:12], "stats": dict(stats), "sets": {"suspension_signatures": sorted(sig_seen)[:400]}}
    if sample is not None:
        r["sample"] = sample
    return r

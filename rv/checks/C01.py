"""C01 - broker operations never lose or duplicate a message.

(a) random well-behaved histories of broker-API calls on each broker, judged after every call by a lifecycle
    reference model against a snapshot of the broker's actual state, and at the end by a drain audit through the
    public API;
(b) cancellation enumeration: every broker call is cancelled at every event-loop step of its execution; the
    state afterwards must be the call's pre-state or post-state, and the message must stay recoverable.
"""
from __future__ import annotations

import asyncio
import collections
import random
from datetime import datetime, timedelta

LEVEL = "fault_enumeration"
RULE = ("(a) seeded random histories of enabled broker-API calls (enqueue, consumer start/finish, consume, ack, nack, "
        "reject, requeue, clock jumps) on mem/redis/rabbit, model==snapshot after every call + final drain audit; "
        "(b) every call cancelled at every loop step. fingerprint: (a) hash of the executed op sequence, non-trivial iff "
        "it contains a consume and a terminal action; (b) (broker, op, pre-state, latency, step k)")
ASSUMPTIONS = [
    "Redis and RabbitMQ are wire-level fakes (rv/fakes) implementing documented semantics for the commands repid issues",
    "clients are well-behaved by construction: terminal actions only on messages they hold; nack only on NORMAL takes",
    "physical 'waiting' vs 'delayed' is only distinguished for due times more than 10 ms ahead (early delivery is C05's)",
    "no time-to-live on messages here (expiry is C12's)",
]
REQUIRED = ["ops", "snapshots_compared", "consume_returns", "cancel_points", "drain_audits", "jumps_to_exact_due_time", "concurrent_pairs", "empty_payload_messages", "messages_sharing_a_due_instant", "newcomers_while_messages_are_held"]
SHARD_TIMEOUT = {"quick": 900, "thorough": 3600}
CASE_TIMEOUT = 120

KINDS = ("mem", "redis", "rabbit")
OPS_CANCEL = ("enqueue", "enqueue_delayed", "consume", "ack", "nack", "reject", "requeue", "requeue_delayed", "finish")


def gen_cases(tier, seed):
    cases = []
    nh = {"quick": 80, "thorough": 900}[tier]
    for kind in KINDS:
        # (the Redis consumer has the most state of its own - prefetch task, local queue, pause lock: three times the histories)
        for i in range(nh * 3 if kind == "redis" and tier == "quick" else nh):
            lat = None if kind == "mem" else [None, 0.002, ["rand", 0.02]][i % 3]
            cases.append({"type": "history", "kind": kind, "seed": seed * 1_000_003 + i, "nops": 30 + (i * 7) % 50, "latency": lat})
    pres = {"quick": ["fresh"], "thorough": ["fresh", "after_reject", "delayed_take", "dead_take"]}[tier]
    lats = {"quick": [None, 0.002], "thorough": [None, 0.002, ["rand", 0.01]]}[tier]
    for kind in KINDS:
        for op in OPS_CANCEL:
            for pre in pres:
                if pre in ("delayed_take", "dead_take") and op in ("enqueue", "enqueue_delayed", "consume", "finish", "nack"):
                    continue
                for lat in lats:
                    if kind == "mem" and lat is not None:
                        continue
                    cases.append({"type": "cancel", "kind": kind, "op": op, "pre": pre, "latency": lat, "seed": seed})
    # two clients at once: consumer A shuts down while the holder of one of its messages settles it and consumer B takes it
    for kind in KINDS:
        for settle_op in ("reject", "requeue", "ack", "nack"):
            for victim in ((3, 1) if tier == "quick" else (3, 2, 1, 0)):
                cases.append({"type": "concurrent", "kind": kind, "op": settle_op, "victim": victim, "offsets": 16 if tier == "quick" else 32, "seed": seed,
                              "latency": None if kind == "mem" else 0.002})
    # other clients come and go while a consumer holds messages with execution timeouts of seconds to days
    for kind in KINDS:
        cases.append({"type": "newcomer", "kind": kind, "waits": [1.5, 3.0, 61.0], "seed": seed, "latency": None if kind == "mem" else 0.002})
    return cases


def V(rule, kind, ctx, detail):
    return {"rule": rule, "broker": kind, "context": ctx, "detail": detail}


# ------------------------------------------------------------------------------------------------ model
class M:
    __slots__ = ("id", "queue", "topic", "prio", "payload", "params", "due", "place", "holder", "taken_from", "key")

    def __init__(self, id_, queue, topic, prio, payload, params, due):
        self.id, self.queue, self.topic, self.prio = id_, queue, topic, prio
        self.payload, self.params, self.due = payload, params, due
        self.place = "queued"
        self.holder = None
        self.taken_from = None
        self.key = None


def allowed_places(m: M, consumers, now: datetime):
    """Set of physical place tuples the model allows for message m right now."""
    act = {c["cat"] for c in consumers if c["started"] and c["queue"] == m.queue}
    if m.place == "gone":
        return {()}
    if m.place in ("held", "stuck"):
        return {("held",)}
    if m.place == "dead":
        s = {("dead",)}
        if "DEAD" in act:
            s.add(("held",))
        return s
    # queued
    s = set()
    if m.due is None:
        s.add(("waiting",))
        if "NORMAL" in act:
            s.add(("held",))
    else:
        s.add(("delayed",))
        if m.due <= now + timedelta(milliseconds=10):
            s.add(("waiting",))
        if m.due <= now + timedelta(seconds=1) and "NORMAL" in act:
            s.add(("held",))  # prefetched by a NORMAL consumer (up to 1 s early on redis: whole-second scores, see C05)
        if "DELAYED" in act:
            s.add(("held",))
    return s


def compare(model, snap, consumers, now, kind, ctx, out, stats, multi=None, local_before=None):
    stats["snapshots_compared"] += 1
    for id_, m in model.items():
        phys = tuple(snap.get(id_, ()))
        ok = allowed_places(m, consumers, now)
        if phys in ok:
            continue
        cx = ctx
        if not phys:
            rule = "lost"
        elif len(phys) > 1:
            rule = "duplicated"
            if multi and multi.get(m.queue):
                cx = "concurrent-consumers"
        elif phys == ("held",) and m.place in ("queued", "dead"):
            rule = "stuck_held"  # marked in-flight although no live consumer could be holding it
            cx = "local-queue-not-returned" if (local_before and m.id in local_before) else "no-live-holder"
            m.place = "stuck"  # reported once; the history goes on with the message written off
        else:
            rule = "wrong_place"
            if ctx.startswith("finish") or ctx == "final-release":
                cx = f"finish/{m.taken_from}"
                if m.place == "held":
                    cx = "finish/returns-other-consumers-message"
        out.append(V(rule, kind, cx, f"after {ctx}: {id_} model={m.place}(due={m.due}, taken_from={m.taken_from}) physical={list(phys)} allowed={sorted(ok)}"))
    for id_ in snap:
        if id_ not in model:
            out.append(V("ghost", kind, ctx, f"after {ctx}: unknown id {id_} at {snap[id_]}"))


def content_check(rig, m: M, kind, ctx, out, stats):
    st = rig.stored(m.id)
    if st is None:
        return
    stats["content_checks"] += 1
    payload, ps = st
    if payload != m.payload or (ps is not None and ps != m.params):
        out.append(V("stale_content", kind, ctx, f"after {ctx}: {m.id} stored payload={payload!r} params={ps} expected payload={m.payload!r} params={m.params}"))


def local_ids(cons) -> set:
    """ids sitting in a consumer's local (prefetch) queue; empty when the consumer has no such queue."""
    try:
        return {item[0].id_ for item in list(cons.queue._queue)}
    except Exception:  # noqa: BLE001
        return set()


# ------------------------------------------------------------------------------------------------ history
async def settle(loop, rig, extra=0.0):
    """Let replies in flight arrive (2 x max latency); `extra` covers repid's own deferred returns (the rabbit
    consumer rejects messages that arrive after finish()/pause() only after a 0.1 s sleep)."""
    lat = rig.latency
    mx = 0.0 if lat is None else (lat if isinstance(lat, (int, float)) else lat[1])
    await asyncio.sleep(2 * mx + 0.0005 + extra)


def mk_params(conn, rnd, now, *, tried=0, delay="rand"):
    from repid.data._parameters import DelayProperties, RetriesProperties

    P = conn.message_broker.PARAMETERS_CLASS
    if delay == "rand":
        delay = rnd.choice(["none", "none", "none", "past", "soon", "later", "far"])
    nxt = {"none": None, "past": now - timedelta(seconds=5), "soon": now + timedelta(seconds=0.3),
           "later": now + timedelta(seconds=5), "far": now + timedelta(hours=1)}[delay]
    return P(retries=RetriesProperties(max_amount=3, already_tried=tried), delay=DelayProperties(next_execution_time=nxt),
             execution_timeout=timedelta(seconds=rnd.choice([10, 600])))


async def run_history(loop, case, out, stats, trace):
    from repid.message import MessageCategory
    from rv.record import psum
    from rv.rigs import Rig, key_of

    kind = case["kind"]
    rnd = random.Random(case["seed"])
    lat = case["latency"]
    rig = Rig(kind, loop, latency=tuple(lat) if isinstance(lat, list) else lat, seed=case["seed"])
    try:
        conns = [rig.make_connection("p1")]
        if kind != "mem" and rnd.random() < 0.6:
            conns.append(rig.make_connection("p2"))
        for c in conns:
            await c.connect()
        queues = ["qa", "qb"][: rnd.choice([1, 1, 2])]
        topics = ["ta", "tb", "tc"][: rnd.choice([1, 2, 3])]
        for q in queues:
            await conns[0].message_broker.queue_declare(q)
        model: dict[str, M] = {}
        consumers: list[dict] = []
        nid = 0
        single_consumer_mode = rnd.random() < (0.5 if kind == "mem" else 0.35)  # cross-consumer effects are C14's
        multi_seen: dict[str, bool] = {}

        def now():
            return datetime.now()

        def may_must(c):
            may, must = [], []
            n = now()
            delayed_rivals = any(o is not c and o["started"] and o["queue"] == c["queue"] and o["cat"] == "DELAYED" for o in consumers)
            flow_blocked = kind == "rabbit" and c.get("mu") and sum(1 for x in model.values() if x.place == "held" and x.holder is c) >= c["mu"]
            others = [o for o in consumers if o is not c and o["started"] and o["queue"] == c["queue"] and o["cat"] == c["cat"]]
            for m in model.values():
                if m.queue != c["queue"] or (c["topics"] is not None and m.topic not in c["topics"]):
                    continue
                if c["cat"] == "DEAD":
                    if m.place == "dead":
                        may.append(m)
                        if not others and not flow_blocked and not (kind == "rabbit" and c["topics"] is not None):
                            must.append(m)
                elif m.place == "queued":
                    if c["cat"] == "NORMAL":
                        if m.due is None or m.due <= n + timedelta(seconds=1):
                            may.append(m)
                        if (m.due is None or (m.due <= n and kind != "rabbit" and not delayed_rivals)) and not others and not (kind == "rabbit" and c["topics"] is not None) and not flow_blocked:
                            must.append(m)
                    else:
                        if m.due is not None:
                            may.append(m)
                            if m.due > n + timedelta(seconds=8) and not others and not flow_blocked and not (kind == "rabbit" and c["topics"] is not None):
                                must.append(m)
            return may, must

        local_before: set = set()
        forced: list = []  # hand-over pattern: (op, consumer) queued after a reject
        for step in range(case["nops"]):
            started = [c for c in consumers if c["started"]]
            held = [m for m in model.values() if m.place == "held"]
            choices = ["enqueue"] * 4 + ["jump"]
            future_due = [m for m in model.values() if m.place == "queued" and m.due is not None and m.due > now() + timedelta(seconds=0.05) and m.due < now() + timedelta(days=2)]
            if future_due:
                choices += ["jump_due"]
            if len(started) < (1 if single_consumer_mode else 3):
                choices += ["start"] * 2
            if started:
                choices += ["consume"] * 6 + ["finish"]
            finished = [c for c in consumers if not c["started"]]
            if finished:
                # a consumer object lives on after finish(): finishing it once more changes nothing, starting it again makes
                # it an ordinary consumer again (whatever it remembered from its previous life must not matter)
                choices += ["refinish"]
                if len(started) < (1 if single_consumer_mode else 3):
                    choices += ["restart"]
            if held:
                choices += ["ack", "nack", "reject", "requeue"] * 2
            op = rnd.choice(choices)
            pick = None
            while forced:
                fop, fc = forced.pop(0)
                if fc["started"]:
                    op, pick = fop, fc
                    break
            ctx = op
            stats["ops"] += 1
            stats["op_" + op] += 1
            if op == "enqueue":
                nid += 1
                id_ = f"m{nid:04d}"
                conn = rnd.choice(conns)
                p = mk_params(conn, rnd, now())
                q, t, pr = rnd.choice(queues), rnd.choice(topics), rnd.choice([0, 5, 9])
                twins_in_time = [m for m in model.values() if m.place == "queued" and m.due is not None and m.due > now() + timedelta(seconds=0.05)]
                if twins_in_time and rnd.random() < 0.3:
                    # due at the very same instant as a message that is already waiting (batch imports, cron lines), in the
                    # same queue and priority, usually under another topic
                    other = rnd.choice(twins_in_time)
                    from repid.data._parameters import DelayProperties as _DP

                    p = type(p)(retries=p.retries, delay=_DP(next_execution_time=other.due), execution_timeout=p.execution_timeout)
                    q, pr = other.queue, other.prio
                    t = rnd.choice([x for x in topics if x != other.topic] or topics)
                    stats["messages_sharing_a_due_instant"] += 1
                # (the empty string is the payload of every job enqueued without arguments, and enqueue()'s own default)
                payload = f"payload-{id_}" if rnd.random() < 0.75 else ""
                if payload == "":
                    stats["empty_payload_messages"] += 1
                await conn.message_broker.enqueue(key_of(conn, id_, t, q, pr), payload, p)
                model[id_] = M(id_, q, t, pr, payload, psum(p), p.delay.next_execution_time)
                trace.append(("enqueue", id_, q, t, pr, str(p.delay.next_execution_time)))
                await settle(loop, rig)
                content_check(rig, model[id_], kind, ctx, out, stats)
            elif op == "jump":
                dt = rnd.choice([0.5, 2.0, 10.0, 4000.0])
                await rig.quiesce_wire()
                loop.jump(dt)
                trace.append(("jump", dt))
                await asyncio.sleep(0.002)
            elif op == "jump_due":
                # put the clock EXACTLY on a message's due time (boundary of every "is it due yet" comparison)
                m = rnd.choice(future_due)
                await rig.quiesce_wire()
                loop.jump_to((m.due - datetime(2040, 1, 1)).total_seconds())
                trace.append(("jump_due", m.id, str(m.due)))
                stats["jumps_to_exact_due_time"] += 1
                for c in [c for c in consumers if c["started"] and c["queue"] == m.queue and c["cat"] == "NORMAL"][:1]:
                    try:
                        key, payload, params = await asyncio.wait_for(c["obj"].consume(), 2.5)
                    except asyncio.TimeoutError:
                        continue
                    stats["consume_returns"] += 1
                    trace.append(("consume", c["obj"]._rv_label, key.id_))
                    mm = model.get(key.id_)
                    if mm is None or mm.place != "queued" or (mm.due is not None and mm.due > now() + timedelta(seconds=1)):
                        out.append(V("wrong_place", kind, "consume/NORMAL", f"after a jump to the due time of {m.id}: received {key.id_} which the model has as {None if mm is None else (mm.place, str(mm.due))}"))
                    else:
                        mm.place, mm.holder, mm.taken_from, mm.key = "held", c, "NORMAL", key
            elif op == "start":
                conn = rnd.choice(conns)
                cat = rnd.choice(["NORMAL", "NORMAL", "NORMAL", "DELAYED", "DEAD"])
                q = rnd.choice(queues)
                tp = rnd.choice([None, None, [rnd.choice(topics)], topics[:2]])
                mu = rnd.choice([None, 1, 3, 10])
                cons = conn.message_broker.get_consumer(q, tp, mu, MessageCategory(cat))
                c = {"obj": cons, "conn": conn, "queue": q, "cat": cat, "topics": tp, "started": True, "mu": mu}
                consumers.append(c)
                if sum(1 for o in consumers if o["started"] and o["queue"] == q) > 1:
                    multi_seen[q] = True
                await cons.start()
                trace.append(("start", cons._rv_label, q, cat, tp, mu))
                await settle(loop, rig)
            elif op == "refinish":
                c = rnd.choice(finished)
                await asyncio.wait_for(c["obj"].finish(), 30)
                trace.append(("refinish", c["obj"]._rv_label))
                await settle(loop, rig, 0.25)
            elif op == "restart":
                c = rnd.choice(finished)
                await c["obj"].start()
                c["started"] = True
                if sum(1 for o in consumers if o["started"] and o["queue"] == c["queue"]) > 1:
                    multi_seen[c["queue"]] = True
                trace.append(("restart", c["obj"]._rv_label))
                await settle(loop, rig)
            elif op == "finish":
                c = pick or rnd.choice(started)
                alone = not any(o is not c and o["started"] and o["queue"] == c["queue"] for o in consumers)
                local_before = local_ids(c["obj"]) if alone else set()
                await asyncio.wait_for(c["obj"].finish(), 30)
                c["started"] = False
                trace.append(("finish", c["obj"]._rv_label))
                await settle(loop, rig, 0.25)
                # handed-out messages of this consumer: either still held or returned (both legal)
                snap = rig.snapshot()
                for m in model.values():
                    if m.place == "held" and m.holder is c:
                        phys = tuple(snap.get(m.id, ()))
                        if phys != ("held",):
                            m.place = "dead" if m.taken_from == "DEAD" else "queued"
                            m.holder = None
                            if phys in (("waiting",), ("delayed",), ("dead",)):
                                stats["finish_returned_handed_out"] += 1
            elif op == "consume":
                c = pick or rnd.choice(started)
                may, must = may_must(c)
                if not may and rnd.random() < 0.6 and pick is None:
                    continue
                timeout = 6.0 if must else (1.2 if not may else 3.0)
                ctx = f"consume/{c['cat']}"
                try:
                    key, payload, params = await asyncio.wait_for(c["obj"].consume(), timeout)
                except asyncio.TimeoutError:
                    trace.append(("consume-timeout", c["obj"]._rv_label))
                    if must and kind == "redis":
                        # a must-message that sat in the 'processing' set for the whole wait without being in this
                        # consumer's local queue is in nobody's hands: the stuck_held mechanism, seen late
                        snap_ = rig.snapshot()
                        loc = local_ids(c["obj"])
                        stuck = [m for m in must if tuple(snap_.get(m.id, ())) == ("held",) and m.id not in loc]
                        for m in stuck:
                            m.place = "stuck"
                        if stuck:
                            # the two listed ways into this state need a finish() (prefetcher cancelled mid-fetch) or a cancelled
                            # consume() while the message was there to be had; a history with neither since the message was last
                            # touched is something else
                            def since_last_touch(m_):
                                last = max((i_ for i_, tr_ in enumerate(trace[:-1]) if m_.id in tr_[1:]), default=-1)
                                return [tr_[0] for tr_ in trace[last + 1:-1]]

                            unexplained = [m_ for m_ in stuck if not ({"finish", "refinish", "restart", "consume-timeout"} & set(since_last_touch(m_)))]
                            cx_ = "no-live-holder/consumer-alive-and-undisturbed-since" if unexplained else "no-live-holder"
                            out.append(V("stuck_held", kind, cx_, f"{[m.id for m in (unexplained or stuck)]} marked in-flight for {timeout}s, not in the local queue of the only consumer that could hold them"
                                         + (f"; since the message was last touched nothing was finished and no consume() was cancelled: {since_last_touch(unexplained[0])}" if unexplained else "")))
                        must = [m for m in must if m not in stuck]
                    if must:
                        stats["consume_must_timeouts"] += 1
                        out.append(V("lost", kind, ctx + "-timeout", f"{c['cat']} consumer on {c['queue']} topics={c['topics']} got nothing in {timeout}s although deliverable: {[m.id for m in must][:5]}; snapshot={ {k: v for k, v in rig.snapshot().items() if k in [m.id for m in must][:5]} }"))
                    else:
                        stats["consume_timeouts_ok"] += 1
                    continue
                stats["consume_returns"] += 1
                trace.append(("consume", c["obj"]._rv_label, key.id_))
                m = model.get(key.id_)
                may = may + [x for x in may_must(c)[0] if x not in may]  # eligibility at call time or at return time
                if m is None or m not in may:
                    rule = "duplicated" if (m is not None and m.place == "held") else "wrong_place"
                    cx = ctx
                    if m is not None and m.place in ("queued", "dead") and m.queue == c["queue"] and c["topics"] is not None and m.topic not in c["topics"]:
                        rule, cx = "topic_filter_ignored", ctx
                    elif m is not None and multi_seen.get(c["queue"]) and (m.place in ("held", "dead", "gone") or payload != m.payload or psum(params) != m.params):
                        rule, cx = "duplicated", "concurrent-consumers"
                    out.append(V(rule, kind, cx, f"{c['cat']} consumer on {c['queue']} topics={c['topics']} received {key.id_} which the model has as {None if m is None else (m.place, str(m.due), m.queue, m.topic)} at {now()}"))
                    if m is None or m.place == "gone":
                        continue
                if (payload != m.payload or psum(params) != m.params) and multi_seen.get(c["queue"]):
                    out.append(V("duplicated", kind, "concurrent-consumers", f"{key.id_} delivered with superseded content (a second copy taken earlier by a rival consumer): payload={payload!r}, expected {m.payload!r}"))
                elif payload != m.payload or psum(params) != m.params:
                    out.append(V("stale_content", kind, ctx, f"{key.id_} delivered payload={payload!r} params={psum(params)} expected {m.payload!r} {m.params}"))
                m.place, m.holder, m.taken_from, m.key = "held", c, c["cat"], key
                await settle(loop, rig)
            else:
                m = rnd.choice(held)
                conn = m.holder["conn"]
                mb = conn.message_broker
                if op == "nack" and m.taken_from != "NORMAL":
                    op = "reject"
                ctx = f"{op}/{m.taken_from}"
                trace.append((op, m.id, m.taken_from))
                if op == "ack":
                    await mb.ack(m.key)
                    m.place = "gone"
                elif op == "nack":
                    await mb.nack(m.key)
                    m.place = "dead"
                elif op == "reject":
                    await mb.reject(m.key)
                    m.place = "dead" if m.taken_from == "DEAD" else "queued"
                    prev = m.holder
                    rivals = [o for o in consumers if o is not prev and o["started"] and o["queue"] == m.queue and o["cat"] == m.taken_from
                              and (o["topics"] is None or m.topic in o["topics"])]
                    if rivals and prev["started"] and rnd.random() < 0.5:
                        # a rival takes what was just given back, then the previous holder shuts down
                        forced = [("consume", rnd.choice(rivals)), ("finish", prev)]
                        stats["handover_patterns"] += 1
                else:
                    p = mk_params(conn, rnd, now(), tried=m.params["tried"] + 1)
                    m.payload = (m.payload + "+") if rnd.random() < 0.8 else ""
                    await mb.requeue(m.key, m.payload, p)
                    m.params, m.due, m.place = psum(p), p.delay.next_execution_time, "queued"
                m.holder = None
                await settle(loop, rig)
                if m.place != "gone":
                    content_check(rig, m, kind, ctx, out, stats)
            if kind == "redis" and rig.server.double_takes:
                stats["redis_lost_take_races"] = len(rig.server.double_takes)  # harmless since the loser gives up (fix 1st)
            if any(v["rule"] != "stuck_held" for v in out):
                break
            n_before = len(out)
            compare(model, rig.snapshot(), consumers, now(), kind, ctx, out, stats, multi_seen, local_before)
            if len(out) > n_before and len(out) > 6:
                break
            if op != "finish":
                local_before = set()
            if any(v["rule"] != "stuck_held" for v in out):
                if kind == "redis":
                    bad = out[0]["detail"].split(": ", 1)[1].split(" ")[0] if ": " in out[0]["detail"] else ""
                    out[0]["server_log_tail"] = [str(e)[:200] for e in rig.server.log if bad and bad in str(e)][-12:]
                break
        # ---- end of history: finish consumers, release held messages, drain audit through the public API
        only_stuck = all(v["rule"] == "stuck_held" for v in out)
        if only_stuck:
            local_before = set()
            for c in consumers:
                if c["started"]:
                    alone = not any(o is not c and o["started"] and o["queue"] == c["queue"] for o in consumers)
                    if alone:
                        local_before |= local_ids(c["obj"])
                    await asyncio.wait_for(c["obj"].finish(), 30)
                    c["started"] = False
            await settle(loop, rig, 0.25)
            snap = rig.snapshot()
            for m in model.values():
                if m.place == "held":
                    phys = tuple(snap.get(m.id, ()))
                    if phys == ("held",):
                        await m.holder["conn"].message_broker.reject(m.key)
                        stats["op_final_reject"] += 1
                    m.place = "dead" if m.taken_from == "DEAD" else "queued"
                    m.holder = None
            await settle(loop, rig, 0.05)
            compare(model, rig.snapshot(), consumers, now(), kind, "final-release", out, stats, multi_seen, local_before)
        if all(v["rule"] == "stuck_held" for v in out):
            n = now()
            got = collections.defaultdict(list)
            for q in queues:
                for cat, id_, payload, ps in await rig.drain(conns[0], q):
                    got[id_].append((cat, payload, ps))
            stats["drain_audits"] += 1
            for id_, m in model.items():
                g = got.get(id_, [])
                if m.place == "stuck":
                    continue  # already reported; comes back only after its execution timeout
                if m.place == "gone":
                    if g:
                        out.append(V("duplicated", kind, "audit", f"acknowledged {id_} came out of the drain: {g}"))
                    continue
                if len(g) != 1:
                    phys = tuple(rig.snapshot().get(id_, ()))
                    if not g and phys == ("held",) and kind != "mem":
                        # still marked in flight after the drain: one of the drain's own timed-out consume() calls (or the
                        # finish() of its consumer) took it and dropped it - the cancellation findings, not a new loss
                        out.append(V("stuck_after_cancel", kind, "consume", f"audit: {id_} (model {m.place}, due {m.due}) never came out of the drain and is still marked in flight"))
                        continue
                    out.append(V("lost" if not g else "duplicated", kind, "audit", f"{id_} (model {m.place}, due {m.due}) came out {len(g)} times: {g}; physical place {phys}"))
                    continue
                cat, payload, ps = g[0]
                exp_cat = "DEAD" if m.place == "dead" else None
                if exp_cat is None:
                    if m.due is None or m.due < n - timedelta(seconds=5):
                        exp_cat = "NORMAL" if kind != "rabbit" or m.due is None else None
                    elif m.due > n + timedelta(seconds=30):
                        exp_cat = "DELAYED"
                if (exp_cat is not None and cat != exp_cat) or (m.place != "dead" and cat == "DEAD") :
                    out.append(V("audit_mismatch", kind, "audit", f"{id_} (model {m.place}, due {m.due}, now {n}) drained from {cat}"))
                if payload != m.payload or ps != m.params:
                    out.append(V("stale_content", kind, "audit", f"{id_} drained payload={payload!r} params={ps}; expected {m.payload!r} {m.params}"))
            for id_ in got:
                if id_ not in model:
                    out.append(V("ghost", kind, "audit", f"unknown id {id_} drained: {got[id_]}"))
        for c in conns:
            try:
                await asyncio.wait_for(c.disconnect(), 30)
            except Exception:  # noqa: BLE001
                pass
        stats["unknown_server_commands"] += rig.unknown_commands()
    finally:
        rig.close()


# ------------------------------------------------------------------------------------------------ cancellation
async def cancel_scenario(loop, case, k, out, stats, info):
    """Set up the pre-state, start the operation as a task, cancel it at relative step k (None: never)."""
    from repid.message import MessageCategory
    from rv.record import psum
    from rv.rigs import Rig, key_of

    kind, op, pre = case["kind"], case["op"], case["pre"]
    lat = case["latency"]
    rnd = random.Random(1)
    rig = Rig(kind, loop, latency=tuple(lat) if isinstance(lat, list) else lat, seed=case.get("seed", 0) * 977 + (k or 0))
    try:
        conn = rig.make_connection("p1")
        await conn.connect()
        mb = conn.message_broker
        await mb.queue_declare("q")
        now = datetime.now()
        model: dict[str, M] = {}
        consumers = []

        async def enq(id_, delay="none"):
            p = mk_params(conn, rnd, now, delay=delay)
            await mb.enqueue(key_of(conn, id_, "t", "q"), "pay-" + id_, p)
            model[id_] = M(id_, "q", "t", 5, "pay-" + id_, psum(p), p.delay.next_execution_time)

        cat = {"delayed_take": "DELAYED", "dead_take": "DEAD"}.get(pre, "NORMAL")
        needs_held = op in ("ack", "nack", "reject", "requeue", "requeue_delayed")
        cons = None
        if needs_held or op in ("consume", "finish"):
            if pre == "delayed_take":
                await enq("m1", "far")
            else:
                await enq("m1")
            if pre == "dead_take":
                c0 = mb.get_consumer("q", None, None, MessageCategory.NORMAL)
                await c0.start()
                key, _, _ = await asyncio.wait_for(c0.consume(), 10)
                await mb.nack(key)
                await c0.finish()
                model["m1"].place = "dead"
            if op == "finish":
                await enq("m2")
                await enq("m3")
            cons = mb.get_consumer("q", None, 10, MessageCategory(cat))
            c = {"obj": cons, "conn": conn, "queue": "q", "cat": cat, "topics": None, "started": True}
            consumers.append(c)
            await cons.start()
            if pre == "after_reject" and op != "consume":
                key, _, _ = await asyncio.wait_for(cons.consume(), 10)
                await mb.reject(key)
            if needs_held or op == "finish":
                key, _, _ = await asyncio.wait_for(cons.consume(), 10)
                m = model[key.id_]
                m.place, m.holder, m.taken_from, m.key = "held", c, cat, key
            await settle(loop, rig)
            await asyncio.sleep(0.5)  # let prefetchers go idle
        held = next((m for m in model.values() if m.place == "held"), None)

        # ---- the operation under cancellation
        post = {}  # id -> (place, payload, params, due) after a completed op
        if op in ("enqueue", "enqueue_delayed"):
            p = mk_params(conn, rnd, datetime.now(), delay="later" if op == "enqueue_delayed" else "none")
            coro = mb.enqueue(key_of(conn, "mX", "t", "q"), "pay-mX", p)
            mx = M("mX", "q", "t", 5, "pay-mX", psum(p), p.delay.next_execution_time)
            mx.place = "absent"
            model["mX"] = mx
            target = mx
        elif op == "consume":
            coro = cons.consume()
            target = model["m1"]
        elif op == "finish":
            coro = cons.finish()
            target = held
        else:
            target = held
            if op == "ack":
                coro = mb.ack(held.key)
            elif op == "nack":
                coro = mb.nack(held.key)
            elif op == "reject":
                coro = mb.reject(held.key)
            else:
                p = mk_params(conn, rnd, datetime.now(), tried=1, delay="later" if op == "requeue_delayed" else "none")
                coro = mb.requeue(held.key, "pay-new", p)
                post["new"] = ("pay-new", psum(p), p.delay.next_execution_time)
        task = loop.create_task(coro)
        start_step = loop.steps
        info["start_step"] = start_step
        cancelled_at = {}

        def hook(step, _prev=loop.step_hook):
            if k is not None and step == start_step + 1 + k and not task.done():
                from rv.sim.loop import await_chain, strip_lines

                cancelled_at["sig"] = "/".join(strip_lines(await_chain(task))[-3:])
                cancelled_at["line"] = await_chain(task)[-1] if await_chain(task) else "?"
                task.cancel()

        loop.step_hook = hook
        result = None
        try:
            result = await asyncio.wait_for(asyncio.shield(task), 30)
            outcome = "completed"
        except asyncio.CancelledError:
            outcome = "cancelled"
        except asyncio.TimeoutError:
            outcome = "timeout"
        except Exception as exc:  # noqa: BLE001
            outcome = "raised:" + type(exc).__name__
        info["len"] = loop.steps - start_step
        info["outcome"] = outcome
        info["sig"] = cancelled_at.get("sig")
        loop.step_hook = None
        await settle(loop, rig)
        await asyncio.sleep(0.3)
        ctx = f"{op}/{pre}"
        snap = rig.snapshot()
        nowd = datetime.now()

        def phys(id_):
            return tuple(snap.get(id_, ()))

        # allowed: pre-state or post-state of the operation
        if op in ("enqueue", "enqueue_delayed"):
            target.place = "queued"
            okp = allowed_places(target, consumers, nowd) | {()}
            if phys("mX") not in okp:
                out.append(V("cancel_nonatomic", kind, op, f"k={k} outcome={outcome}: mX at {phys('mX')}, allowed {sorted(okp)}"))
            if outcome == "completed" and phys("mX") == ():
                out.append(V("lost", kind, op, "enqueue returned but mX is nowhere"))
            target.place = "queued" if phys("mX") else "gone"
            if target.place == "queued":
                content_check(rig, target, kind, ctx, out, stats)
        elif op == "consume":
            if outcome == "completed":
                key = result[0]
                m = model[key.id_]
                m.place, m.holder, m.taken_from, m.key = "held", consumers[0], cat, key
        elif op == "finish":
            pass
        else:
            held_backup = (held.payload, held.params, held.due)
            if op == "ack":
                held.place = "gone"
            elif op == "nack":
                held.place = "dead"
            elif op == "reject":
                held.place = "dead" if held.taken_from == "DEAD" else "queued"
            else:
                held.payload, held.params, held.due = post["new"]
                held.place = "queued"
            held.holder = None
            post_ok = allowed_places(held, consumers, nowd)  # the consumer is still started: it may prefetch again
            ph = phys(held.id)
            if outcome == "completed":
                if ph not in post_ok:
                    out.append(V("lost" if not ph else "wrong_place", kind, ctx, f"{op} returned normally but {held.id} is at {list(ph)}, expected {sorted(post_ok)}"))
                    held.place = "gone" if not ph else held.place
                elif held.place in ("queued", "dead"):
                    content_check(rig, held, kind, ctx, out, stats)
                stats["cancel_saw_post"] += 1
            elif ph == ("held",) and outcome != "completed":
                # pre-state (or re-prefetched post-state: indistinguishable here; the release below treats both alike)
                stats["cancel_saw_pre"] += 1
                held.payload, held.params, held.due = held_backup
                held.place, held.holder = "held", consumers[0]
                content_unknown = True  # noqa: F841
            elif ph in post_ok:
                stats["cancel_saw_post"] += 1
                if held.place in ("queued", "dead"):
                    content_check(rig, held, kind, ctx, out, stats)
            else:
                opn = "requeue" if op.startswith("requeue") else op
                out.append(V("cancel_nonatomic", kind, opn, f"k={k} outcome={outcome} cancelled_in={cancelled_at.get('sig')}: {held.id} at {list(ph)}; pre-state ['held'], post-state {sorted(post_ok)}"))
                held.place = "gone" if not ph else held.place
        # ---- recovery: finish the consumer, release what the client still holds; afterwards nothing may be stuck
        local = local_ids(cons) if cons is not None else set()
        channel_dead = False
        if cons is not None:
            try:
                await asyncio.wait_for(cons.finish(), 30)
            except ConnectionError:
                channel_dead = True  # aiormq closes the channel when an RPC is cancelled; the server then requeues (R6)
            except Exception as exc:  # noqa: BLE001
                out.append(V("cancel_nonatomic", kind, f"{op}/finish-after", f"k={k}: finish() after the cancelled {op} raised {exc!r}"))
            consumers[0]["started"] = False
        await settle(loop, rig, 0.25)
        snap = rig.snapshot()
        for m in model.values():
            if m.place == "held":
                if tuple(snap.get(m.id, ())) == ("held",) and not channel_dead:
                    try:
                        await mb.reject(m.key)
                    except ConnectionError:
                        channel_dead = True
                m.place = "dead" if m.taken_from == "DEAD" else "queued"
                m.holder = None
        await settle(loop, rig, 0.05)
        if channel_dead:
            stats["channel_closed_by_cancel"] += 1
        snap = rig.snapshot()
        stats["snapshots_compared"] += 1
        for m in model.values():
            ph = tuple(snap.get(m.id, ()))
            if m.place in ("absent", "gone"):
                if ph not in ((),):
                    out.append(V("duplicated" if m.place == "gone" else "wrong_place", kind, ctx, f"k={k}: {m.id} expected nowhere, found at {list(ph)}"))
                continue
            okp = allowed_places(m, [], datetime.now())
            if ph not in okp:
                if not ph:
                    rule, cx = "lost", op
                elif len(ph) > 1:
                    rule, cx = "duplicated", op
                elif ph == ("held",):
                    rule = "stuck_after_cancel"
                    cx = op + ("/local-queue-not-returned" if (m.id in local and op != "finish") else "")
                else:
                    rule, cx = "wrong_place", f"{op}/{m.taken_from}"
                out.append(V(rule, kind, cx, f"k={k} outcome={outcome} cancelled_in={cancelled_at.get('sig')}: after finish()+release {m.id} (model {m.place}) is at {list(ph)}, allowed {sorted(okp)}"))
        # drain through a fresh connection (a cancelled RPC may have cost the first one its channel)
        try:
            await asyncio.wait_for(conn.disconnect(), 30)
        except Exception:  # noqa: BLE001
            pass
        if not out or all(v["rule"] in ("stuck_after_cancel",) for v in out):
            conn2 = rig.make_connection("p2") if kind != "mem" else conn
            await conn2.connect()
            got = collections.Counter()
            for cat_, id_, payload, ps in await rig.drain(conn2, "q"):
                got[id_] += 1
            stats["drain_audits"] += 1
            stuck = {tuple(snap.get(m.id, ())) == ("held",) for m in model.values()}
            for m in model.values():
                want = 0 if m.place in ("absent", "gone") else 1
                if kind == "redis" and tuple(snap.get(m.id, ())) == ("held",):
                    want = 0  # stays in-flight until its execution timeout (reported above as stuck_after_cancel)
                if got.get(m.id, 0) != want:
                    out.append(V("lost" if got.get(m.id, 0) < want else "duplicated", kind, op + "/audit", f"k={k}: {m.id} drained {got.get(m.id, 0)} times, expected {want}"))
            if kind != "mem":
                try:
                    await asyncio.wait_for(conn2.disconnect(), 30)
                except Exception:  # noqa: BLE001
                    pass
        stats["unknown_server_commands"] += rig.unknown_commands()
    finally:
        rig.close()



async def concurrent_scenario(loop, case, off, first, out, stats):
    """A holds a0..a3 (handed out by A.consume()). Task 1: A.finish(). Task 2: the holder settles the victim through the
    broker (reject, or requeue with a new payload), consumer B consumes once and acknowledges what it got. The two tasks
    start `off` scheduling quanta apart (`first` starts first). Afterwards every message is in exactly one place: what B
    acknowledged is gone, everything else is deliverable exactly once, nothing is held."""
    from repid.message import MessageCategory
    from rv.rigs import Rig, key_of

    kind = case["kind"]
    rig = Rig(kind, loop, latency=case["latency"], seed=case["seed"], record=False)
    try:
        ca = rig.make_connection("p1")
        await ca.connect()
        cb = ca if kind == "mem" else rig.make_connection("p2")
        if cb is not ca:
            await cb.connect()
        mb = ca.message_broker
        await mb.queue_declare("q")
        P = mb.PARAMETERS_CLASS
        ids = [f"a{i}" for i in range(4)]
        for id_ in ids:
            await mb.enqueue(key_of(ca, id_, "t", "q", 5), f"p-{id_}", P())
        A = mb.get_consumer("q", None, None, MessageCategory.NORMAL)
        await A.start()
        keys = {}
        for _ in ids:
            k, _pl, _pr = await asyncio.wait_for(A.consume(), 5.0)
            keys[k.id_] = k
        B = cb.message_broker.get_consumer("q", None, None, MessageCategory.NORMAL)
        await B.start()
        await settle(loop, rig)
        victim = f"a{case['victim']}"
        quantum = 0.0 if kind == "mem" else 0.0005
        got = {}

        async def delay(n):
            for _ in range(n):
                await asyncio.sleep(quantum)

        async def t_finish():
            await delay(off if first == "settle" else 0)
            await A.finish()

        async def t_settle():
            await delay(off if first == "finish" else 0)
            if case["op"] == "reject":
                await mb.reject(keys[victim])
            elif case["op"] == "requeue":
                await mb.requeue(keys[victim], "p-new", P())
            elif case["op"] == "ack":
                await mb.ack(keys[victim])
            else:
                await mb.nack(keys[victim])
            try:
                k, pl, _pr = await asyncio.wait_for(B.consume(), 3.0)
            except asyncio.TimeoutError:
                return
            got["id"], got["payload"] = k.id_, pl
            got["held_snapshot"] = rig.snapshot().get(k.id_)
            await cb.message_broker.ack(k)

        await asyncio.gather(t_finish(), t_settle())
        await settle(loop, rig)
        stats["concurrent_pairs"] += 1
        ctx = f"finish||{case['op']}+consume+ack"
        # while B held it, it was nowhere else
        if got and got["held_snapshot"] not in (["held"], None):
            out.append(V("duplicated", kind, ctx + "/held-and-waiting", f"offset {off} ({first} first): B was handed {got['id']} while it was at {got['held_snapshot']}"))
        # (a requeue that lost the race against finish() finds the message already returned and is a no-op: both the old and
        # the new content are legal outcomes here; what is judged is that the message exists exactly once)
        if got.get("id") == victim and case["op"] == "requeue" and got["payload"] not in ("p-new", f"p-{victim}"):
            out.append(V("requeue_not_effective", kind, ctx, f"offset {off}: B received the requeued {victim} with payload {got['payload']!r}"))
        # the client hands back what the broker still marks as held by the finished consumer (redis / rabbit leave that to it)
        snap = rig.snapshot()
        for id_ in ids:
            if snap.get(id_) == ["held"] and id_ != got.get("id"):
                await mb.reject(keys[id_])
        await B.finish()
        await settle(loop, rig)
        drained = await rig.drain(ca, "q")
        seen = collections.Counter(d[1] for d in drained)
        want = collections.Counter(i for i in ids if i != got.get("id"))
        stats["drain_audits"] += 1
        if case["op"] in ("ack", "nack") and got.get("id") != victim:
            # the holder's ack / nack either took effect (gone / dead-lettered once) or lost the race against finish(), which had
            # already returned the message (then it is deliverable once): nothing else
            cats = sorted(d[0] for d in drained if d[1] == victim)
            legal = [[], ["NORMAL"]] if case["op"] == "ack" else [["DEAD"], ["NORMAL"]]
            if cats not in legal:
                out.append(V("duplicated" if len(cats) > 1 else "lost", kind, f"{ctx}/victim-at-{'+'.join(cats) or 'nowhere'}", f"offset {off} ({first} first): after {case['op']}({victim}) next to A.finish() the message is at {cats} (legal: {legal})"))
            seen[victim] = want[victim] = 0
            seen, want = +seen, +want
        if seen != want:
            extra = sorted((seen - want).elements())
            missing = sorted((want - seen).elements())
            rule = "duplicated" if extra else "lost"
            why = "acked-message-delivered-again" if got.get("id") in extra else ("other" if extra else "missing")
            out.append(V(rule, kind, f"{ctx}/{why}", f"offset {off} ({first} first), victim {victim}: B acknowledged {got.get('id')}; the queue then offered {dict(seen)} (expected {dict(want)}): extra {extra}, missing {missing}"))
        left = {i: pl for i, pl in rig.snapshot().items() if pl}
        if left:
            out.append(V("stuck", kind, ctx, f"offset {off}: after the drain {left}"))
        stats["unknown_server_commands"] += rig.unknown_commands()
        if cb is not ca:
            await cb.disconnect()
        await ca.disconnect()
    finally:
        rig.close()


async def newcomer_scenario(loop, case, out, stats, fps):
    """A consumer holds messages whose execution timeouts run from seconds to days; other clients connect and disconnect (on
    Redis each of those runs the broker's maintenance): every held message stays where it is - held, once - and nothing of it
    is offered to a fresh consumer."""
    from datetime import timedelta as _td

    from repid.message import MessageCategory
    from rv.rigs import Rig, key_of

    kind = case["kind"]
    rig = Rig(kind, loop, latency=case["latency"], seed=case["seed"])
    try:
        conn = rig.make_connection("p1")
        await conn.connect()
        mb = conn.message_broker
        await mb.queue_declare("q")
        P = mb.PARAMETERS_CLASS
        timeouts = {"t10m": _td(minutes=10), "t1d": _td(days=1), "t25h": _td(hours=25), "t2d": _td(days=2), "t7d1s": _td(days=7, seconds=1), "t90s": _td(seconds=90)}
        for id_, to in timeouts.items():
            await mb.enqueue(key_of(conn, id_, "t", "q"), "p", P(execution_timeout=to))
        A = mb.get_consumer("q", None, None, MessageCategory.NORMAL)
        await A.start()
        held = {}
        for _ in timeouts:
            key, _pl, _pr = await asyncio.wait_for(A.consume(), 10)
            held[key.id_] = key
        for wait in case["waits"]:
            await asyncio.sleep(wait)
            await rig.quiesce_wire()
            newcomer = rig.make_connection(f"n{wait}")
            await newcomer.connect()
            B = newcomer.message_broker.get_consumer("q", None, None, MessageCategory.NORMAL)
            await B.start()
            got = None
            try:
                k2, _pl, _pr = await asyncio.wait_for(B.consume(), 2.5 if kind == "redis" else 0.8)
                got = k2.id_
            except asyncio.TimeoutError:
                pass
            await B.finish()
            await newcomer.disconnect()
            stats["snapshots_compared"] += 1
            stats["newcomers_while_messages_are_held"] += 1
            snap = rig.snapshot()
            bad = {i: snap.get(i) for i in timeouts if snap.get(i) != ["held"]}
            fps.append(f"newcomer/{kind}/{wait}")
            if got is not None or bad:
                out.append(V("duplicated", kind, "newcomer-while-held", f"consumer A holds {sorted(timeouts)} (execution timeouts 90 s ... 7 days); {wait}s later a second client connected and looked at the queue: "
                                                                         f"it was handed {got!r}; places {bad or 'all held'}"))
                break
        for k in held.values():
            await mb.ack(k)
        await A.finish()
        await conn.disconnect()
        stats["unknown_server_commands"] += rig.unknown_commands()
    finally:
        rig.close()


def run_case(case):
    from rv.sim import loop as vl

    stats = collections.Counter()
    out: list = []
    if case["type"] == "newcomer":
        fps = []
        res = vl.run(lambda loop: newcomer_scenario(loop, case, out, stats, fps), max_steps=2_000_000, seed=case["seed"])
        if res.exc is not None:
            out.append(V("harness_or_api_error", case["kind"], "newcomer", f"{type(res.exc).__name__}: {res.exc}"))
        if stats.get("unknown_server_commands"):
            return {"fp": None, "viol": [], "stats": dict(stats), "inconclusive": "fake server saw unknown commands"}
        return {"fp": None, "fps": fps, "viol": out[:6], "stats": dict(stats)}
    if case["type"] == "concurrent":
        fps = []
        for off in range(case["offsets"]):
            for first in ("finish", "settle"):
                if off == 0 and first == "settle":
                    continue
                out_k: list = []
                res = vl.run(lambda loop, off=off, first=first: concurrent_scenario(loop, case, off, first, out_k, stats), max_steps=2_000_000, seed=case["seed"])
                if res.exc is not None:
                    out_k.append(V("harness_or_api_error", case["kind"], "concurrent", f"offset {off}/{first}: {type(res.exc).__name__}: {res.exc}"))
                fps.append(f"concurrent/{case['kind']}/{case['op']}/{case['victim']}/{off}/{first}")
                for v in out_k:
                    if not any(o["rule"] == v["rule"] and o["context"] == v["context"] for o in out):
                        out.append(v)
        if stats.get("unknown_server_commands"):
            return {"fp": None, "viol": [], "stats": dict(stats), "inconclusive": "fake server saw unknown commands"}
        return {"fp": None, "fps": fps, "viol": out[:6], "stats": dict(stats)}
    if case["type"] == "history":
        trace: list = []
        res = vl.run(lambda loop: run_history(loop, case, out, stats, trace), max_steps=3_000_000, seed=case["seed"])
        if res.exc is not None:
            if isinstance(res.exc, (vl.StepLimit,)):
                return {"fp": None, "viol": [], "stats": dict(stats), "inconclusive": f"step limit: {res.exc}"}
            out.append(V("harness_or_api_error", case["kind"], "history", f"{type(res.exc).__name__}: {res.exc} after {trace[-3:]}"))
        if stats.get("unknown_server_commands"):
            return {"fp": None, "viol": [], "stats": dict(stats), "inconclusive": "fake server saw unknown commands"}
        import hashlib

        nontrivial = stats.get("consume_returns", 0) > 0 and any(stats.get("op_" + o, 0) for o in ("ack", "nack", "reject", "requeue"))
        fp = hashlib.sha1(repr(trace).encode()).hexdigest()[:16] if nontrivial else None
        for v in out[:5]:
            v["witness"] = [list(map(str, t)) for t in trace[-14:]]
        r = {"fp": fp, "viol": out[:5], "stats": dict(stats)}
        if case["cid"] % 40 == 0:
            r["sample"] = {"type": "history", "kind": case["kind"], "ops": [list(map(str, t)) for t in trace[:25]]}
        return r
    # cancellation: baseline, then every k
    info: dict = {}
    res = vl.run(lambda loop: cancel_scenario(loop, case, None, out, stats, info), max_steps=1_000_000, seed=1)
    if res.exc is not None or out:
        detail = f"baseline (uncancelled) scenario failed: {res.exc!r} {out[:1]}"
        if out:
            return {"fp": None, "viol": out[:3], "stats": dict(stats)}
        return {"fp": None, "viol": [], "stats": dict(stats), "inconclusive": detail}
    length = info["len"]
    fps = []
    sigs = set()
    for k in range(0, length + 1):
        info_k: dict = {}
        out_k: list = []
        res = vl.run(lambda loop: cancel_scenario(loop, case, k, out_k, stats, info_k), max_steps=1_000_000, seed=1)
        stats["cancel_points"] += 1
        if res.exc is not None:
            out_k.append(V("harness_or_api_error", case["kind"], f"{case['op']}/{case['pre']}", f"k={k}: {type(res.exc).__name__}: {res.exc}"))
        if info_k.get("outcome") == "cancelled":
            stats["cancel_effective"] += 1
            if info_k.get("sig"):
                sigs.add(f"{case['kind']}:{case['op']}:{info_k['sig']}")
        fps.append(f"cancel/{case['kind']}/{case['op']}/{case['pre']}/{case['latency']}/{k}")
        # keep one violation per rule
        for v in out_k:
            if not any(o["rule"] == v["rule"] and o["context"] == v["context"] for o in out):
                out.append(v)
    if stats.get("unknown_server_commands"):
        return {"fp": None, "viol": [], "stats": dict(stats), "inconclusive": "fake server saw unknown commands"}
    r = {"fp": None, "fps": fps, "viol": out[:6], "stats": dict(stats), "sets": {"cancel_suspension_points": sorted(sigs)}}
    if case["op"] == "requeue":
        r["sample"] = {"type": "cancel", "kind": case["kind"], "op": case["op"], "pre": case["pre"], "steps": length, "suspension_points": sorted(sigs)[:6]}
    return r

"""C20 - the health endpoint tells the truth and cannot be knocked over.

A real Worker with the health-check server runs on the stock asyncio loop with real loopback sockets (no virtual
time here); jobs keep flowing through a healthy queue. A fuzzing client sends byte strings (valid, truncated at every
offset, binary, oversized, header floods, fragmented, many connections, connections held across a status flip); after
every input a probe request must still be answered correctly and the completed-job counter must keep growing. A
consumer failure is injected at a chosen point; the port must accept connections exactly while run() is in progress.
"""
from __future__ import annotations

import asyncio
import collections
import random
import socket
import time
from datetime import timedelta

LEVEL = "exploration"
RULE = ("settings {127.0.0.1, 0.0.0.0} x free ports x endpoints; inputs: valid GET, other path, other method, truncated at every offset, "
        "invalid UTF-8 / binary, 1 MB body, header flood, 1-byte fragmentation with pauses, 60-200 concurrent connections, connections held "
        "open across the status flip; consumer failure injected before / in the middle of / after the fuzz sequence; evaluation = one "
        "input judged (response oracle for well-formed single-segment requests + liveness probe + progress); fingerprint = hash of the "
        "bytes sent + fragmentation + health state; trivial = none")
ASSUMPTIONS = ["stock asyncio loop, real loopback sockets, real time; verdicts never depend on wall-clock deadlines: a response is awaited to EOF under a 5 s watchdog whose expiry makes the case inconclusive",
               "status codes are demanded only for well-formed requests delivered in one segment"]
EVAL_COUNTER = "inputs_judged"
REQUIRED = ["inputs_judged", "probes_ok", "wellformed_checked", "malformed_sent", "status_flips", "port_lifetime_checks", "jobs_completed", "shutdowns_with_lingering_connections", "idle_worker_probes", "probes_while_draining", "races_in_which_the_consumer_did_fail"]
CASE_TIMEOUT = 400


def gen_cases(tier, seed):
    rnd = random.Random(seed)
    n = {"quick": 14, "thorough": 120}[tier]
    cases = []
    for i in range(n):
        cases.append({"seed": rnd.randrange(10**6), "address": rnd.choice(["127.0.0.1", "127.0.0.1", "0.0.0.0"]), "endpoint": rnd.choice(["/healthz", "/health", "/h/x-1", "/"]),
                      "fail_at": rnd.choice(["never", "start", "start", "middle", "middle", "end"]), "slow_start": rnd.choice([0, 0, 0.15, 0.3]), "ninputs": {"quick": 30, "thorough": 60}[tier], "end": rnd.choice(["signal", "signal", "cancel"]),
                      # connections a client keeps open while the worker stops: idle, half a request, a served one it never closes
                      "linger": rnd.sample(["idle", "partial", "idle", "binary", "slow_reader"], rnd.choice([0, 1, 2, 4]))})
    cases.append({"type": "idle_worker", "seed": 1})
    cases.append({"type": "draining", "seed": 1})
    return cases


def V(rule, ctx, detail):
    return {"rule": rule, "broker": "-", "context": ctx, "detail": detail}


def free_port():
    s = socket.socket()
    s.bind(("127.0.0.1", 0))
    p = s.getsockname()[1]
    s.close()
    return p


async def talk(port, chunks, *, pause=0.0, read_timeout=5.0, hold=None):
    """Send chunks (list of bytes), read to EOF. Returns (response bytes | None on refused, 'eof'|'watchdog'|'reset')."""
    try:
        r, w = await asyncio.wait_for(asyncio.open_connection("127.0.0.1", port), 3.0)
    except (ConnectionRefusedError, OSError):
        return None, "refused"
    except asyncio.TimeoutError:
        return None, "connect-watchdog"
    try:
        if hold is not None:
            await hold.wait()
        for c in chunks:
            try:
                w.write(c)
                await w.drain()
            except (ConnectionError, OSError):
                break
            if pause:
                await asyncio.sleep(pause)
        data = b""
        try:
            while True:
                d = await asyncio.wait_for(r.read(65536), read_timeout)
                if not d:
                    return data, "eof"
                data += d
        except asyncio.TimeoutError:
            return data, "watchdog"
        except (ConnectionError, OSError):
            return data, "reset"
    finally:
        try:
            w.close()
        except Exception:  # noqa: BLE001
            pass


def status_of(resp: bytes):
    try:
        line = resp.split(b"\r\n", 1)[0].decode()
        return int(line.split(" ")[1])
    except Exception:  # noqa: BLE001
        return None


def make_inputs(rnd, endpoint, n):
    good = f"GET {endpoint} HTTP/1.1\r\nHost: localhost\r\nAccept: */*\r\n\r\n".encode()
    out = []
    kinds = ["valid", "valid_min", "other_path", "other_method", "truncated", "truncated", "binary", "invalid_utf8", "huge", "header_flood", "frag1", "frag2", "empty",
             "no_spaces", "only_crlf", "lf_only", "many_conn", "prefix_path", "query", "head", "post_body", "nul_bytes", "long_line", "foreign_bytes", "foreign_bytes", "long_segment_cut", "long_segment_fragment", "long_segment_http2", "long_segment_tab"]
    for i in range(n):
        k = kinds[i % len(kinds)] if i < len(kinds) else rnd.choice(kinds)
        if k == "valid":
            out.append((k, [good], 200))
        elif k == "valid_min":
            out.append((k, [f"GET {endpoint} HTTP/1.0\r\n\r\n".encode()], 200))
        elif k == "other_path":
            out.append((k, [f"GET {endpoint}x HTTP/1.1\r\n\r\n".encode()], 404))
        elif k == "prefix_path":
            p = endpoint[:-1] if len(endpoint) > 1 else "/zz"
            out.append((k, [f"GET {p} HTTP/1.1\r\nHost: a\r\n\r\n".encode()], 404))
        elif k == "query":
            out.append((k, [f"GET {endpoint}?x=1 HTTP/1.1\r\n\r\n".encode()], 404))
        elif k == "other_method":
            out.append((k, [f"{rnd.choice(['POST', 'PUT', 'DELETE', 'get', 'OPTIONS'])} {endpoint} HTTP/1.1\r\n\r\n".encode()], 404))
        elif k == "head":
            out.append((k, [f"HEAD {endpoint} HTTP/1.1\r\n\r\n".encode()], 404))
        elif k == "post_body":
            out.append((k, [f"POST {endpoint} HTTP/1.1\r\nContent-Length: 5\r\n\r\nhello".encode()], 404))
        elif k == "truncated":
            cut = rnd.randrange(0, len(good))
            out.append((k, [good[:cut]] if cut else [], None))
        elif k == "binary":
            out.append((k, [bytes(rnd.randrange(256) for _ in range(rnd.choice([1, 17, 300])))], None))
        elif k == "invalid_utf8":
            out.append((k, [b"GET " + endpoint.encode() + b" HTTP/1.1\r\nX: \xff\xfe\xfa\r\n\r\n"], None))
        elif k == "foreign_bytes":
            # the endpoint's request with bytes that are not UTF-8 INSIDE the method or the path: another method/path
            line = f"GET {endpoint}".encode()
            pos = rnd.randrange(0, len(line) + 1)
            junk = rnd.choice([b"\xff", b"\x80", b"\xe2\x82", b"\xc3", b"\xf0\x9f\x98"])
            out.append((k, [line[:pos] + junk + line[pos:] + b" HTTP/1.1\r\nHost: a\r\n\r\n"], -1))
        elif k == "nul_bytes":
            out.append((k, [b"\x00" * 64 + good], None))
        elif k == "huge":
            out.append((k, [good[:-2] + b"X-Big: " + b"a" * 1_000_000 + b"\r\n\r\n"], None))
        elif k == "header_flood":
            out.append((k, [good[:-2] + b"".join(b"X-%d: v\r\n" % j for j in range(3000)) + b"\r\n"], None))
        elif k == "long_line":
            out.append((k, [b"GET /" + b"a" * 70000 + b" HTTP/1.1\r\n\r\n"], None))
        elif k == "frag1":
            out.append((k, [bytes([b]) for b in good], None))
        elif k == "frag2":
            cut = rnd.randrange(1, len(good) - 1)
            out.append((k, [good[:cut], good[cut:]], None))
        elif k == "empty":
            out.append((k, [], None))
        elif k == "no_spaces":
            out.append((k, [b"GARBAGE\r\n\r\n"], None))
        elif k == "only_crlf":
            out.append((k, [b"\r\n\r\n"], None))
        elif k == "lf_only":
            out.append((k, [f"GET {endpoint} HTTP/1.1\n\n".encode()], None))
        elif k == "many_conn":
            out.append((k, "MANY", None))
        elif k.startswith("long_segment"):
            # one long path segment (24 characters: what a probe's uuid or hash looks like) in requests that stop short, carry a
            # fragment, name another protocol version or use a tab: nothing a parser may choke on
            seg = "".join(rnd.choice("abcdefghijklmnopqrstuvwxyz0123456789-_") for _ in range(24))
            tail = {"long_segment_cut": "", "long_segment_fragment": "#top HTTP/1.1\r\nHost: a\r\n\r\n", "long_segment_http2": " HTTP/2\r\nHost: a\r\n\r\n", "long_segment_tab": "\tHTTP/1.1\r\nHost: a\r\n\r\n"}[k]
            out.append((k, [f"GET /probes/{seg}{tail}".encode()], None))
    rnd.shuffle(out)
    return out


async def idle_worker_scenario(case, out, stats, fps):
    """Workers that have nothing to do (no router, a router without actors) or that fail on their way up: whenever run() is
    over - returned or raised - nothing listens on the health port, not at that instant and not a moment later."""
    from repid import Connection, Router, Worker
    from repid.connections.in_memory.message_broker import InMemoryMessageBroker
    from repid.health_check_server import HealthCheckServerSettings

    good = b"GET /healthz HTTP/1.1\r\nHost: probe\r\n\r\n"
    for variant in ("no_routers", "empty_router", "twice"):
        conn = Connection(InMemoryMessageBroker())
        await conn.connect()
        port = free_port()
        routers = [] if variant == "no_routers" else [Router(), Router()]
        for round_ in range(2 if variant == "twice" else 1):
            worker = Worker(routers=routers, run_health_check_server=True, handle_signals=[],
                            health_check_server_settings=HealthCheckServerSettings(address="127.0.0.1", port=port), _connection=conn)
            how_ended = "returned"
            try:
                await asyncio.wait_for(worker.run(), 10)
            except asyncio.TimeoutError:
                out.append(V("port_lifetime", f"idle-worker/{variant}", "a worker without actors did not return within 10 s"))
                continue
            except Exception as exc:  # noqa: BLE001
                how_ended = f"raised {type(exc).__name__}"
            for wait in (0.0, 0.05, 0.4):
                await asyncio.sleep(wait)
                stats["port_lifetime_checks"] += 1
                stats["idle_worker_probes"] += 1
                resp, how = await talk(port, [good], read_timeout=1.0)
                if how != "refused":
                    out.append(V("port_lifetime", f"idle-worker/{variant}", f"Worker.run() of a worker without actors {how_ended}; {wait}s later port {port} accepts connections and answers {status_of(resp) if resp else how}"))
                    try:
                        await worker.health_check_server.stop()
                    except Exception:  # noqa: BLE001
                        pass
                    break
        fps.add(f"idle-worker/{variant}")
        await conn.disconnect()


async def draining_scenario(case, out, stats, fps, incon):
    """The worker has stopped consuming (message limit reached / stop signal / its only consumer failed) while an actor is still
    executing: run() is still in progress, so the port answers - 200, or 503 when a consumer failed - until run() is over."""
    import signal

    from repid import Connection, Job, Router, Worker
    from repid.connections.in_memory.consumer import _InMemoryConsumer
    from repid.connections.in_memory.message_broker import InMemoryMessageBroker
    from repid.converter import BasicConverter
    from repid.health_check_server import HealthCheckServerSettings
    from repid.router import RouterDefaults

    good = b"GET /healthz HTTP/1.1\r\nHost: probe\r\n\r\n"
    loop = asyncio.get_running_loop()
    # race:k - the worker's only consumer fails k loop turns after the last completion, a stop request arrives 5 turns after it:
    # whenever the consumer did fail (it was not cancelled first), the drain phase answers 503
    # "the consumer has failed" = the worker's consume loop for that queue ended with the exception (not: was cancelled while
    # the exception was still on its way up through the nested tasks - then the worker never learnt of it)
    from repid._runner import _Runner

    race_failed = []
    orig_rc = _Runner._run_consumer

    async def spy_rc(self_, *a, **k):
        try:
            return await orig_rc(self_, *a, **k)
        except asyncio.CancelledError:
            raise
        except BaseException:
            race_failed.append(1)
            raise

    _Runner._run_consumer = spy_rc
    try:
        await _draining_variants(case, out, stats, fps, incon, race_failed)
    finally:
        _Runner._run_consumer = orig_rc


async def _draining_variants(case, out, stats, fps, incon, race_failed):
    import signal

    from repid import Connection, Job, Router, Worker
    from repid.connections.in_memory.consumer import _InMemoryConsumer
    from repid.connections.in_memory.message_broker import InMemoryMessageBroker
    from repid.converter import BasicConverter
    from repid.health_check_server import HealthCheckServerSettings
    from repid.router import RouterDefaults

    good = b"GET /healthz HTTP/1.1\r\nHost: probe\r\n\r\n"
    loop = asyncio.get_running_loop()
    for variant in ["limit", "signal", "consumer_failed"] + [f"race:{k}" for k in range(0, 14)]:
        fail = asyncio.Event()
        raised = []
        del race_failed[:]

        class FaultyConsumer(_InMemoryConsumer):
            async def consume(self):
                # (the failure arrives while the consumer waits for the next message - the queue is empty by then)
                get, boom = asyncio.ensure_future(super().consume()), asyncio.ensure_future(fail.wait())
                try:
                    await asyncio.wait({get, boom}, return_when=asyncio.FIRST_COMPLETED)
                finally:
                    boom.cancel()
                    if not get.done():
                        get.cancel()
                if get.done() and not get.cancelled():
                    return get.result()
                raised.append(1)
                raise RuntimeError("consumer failure (injected)")

        class Broker(InMemoryMessageBroker):
            CONSUMER_CLASS = FaultyConsumer

        conn = Connection(Broker())
        await conn.connect()
        r = Router(defaults=RouterDefaults(converter=BasicConverter))
        gate, slow_started, fast_done = asyncio.Event(), asyncio.Event(), asyncio.Event()
        finished = []

        async def slow():
            slow_started.set()
            await gate.wait()
            finished.append("slow")

        async def fast():
            await slow_started.wait()
            finished.append("fast")
            fast_done.set()

        r.actor(name="slow", queue="q")(slow)
        r.actor(name="fast", queue="q")(fast)
        await conn.message_broker.queue_declare("q")
        await Job("slow", queue="q", id_="s1", store_result=False, timeout=timedelta(seconds=60), _connection=conn).enqueue()
        await Job("fast", queue="q", id_="f1", store_result=False, timeout=timedelta(seconds=60), _connection=conn).enqueue()
        port = free_port()
        worker = Worker(routers=[r], tasks_limit=4, messages_limit=2 if variant == "limit" else float("inf"), graceful_shutdown_time=20.0,
                        handle_signals=[signal.SIGUSR2], run_health_check_server=True,
                        health_check_server_settings=HealthCheckServerSettings(address="127.0.0.1", port=port), _connection=conn)
        run_task = loop.create_task(worker.run())
        try:
            await asyncio.wait_for(fast_done.wait(), 10)
        except asyncio.TimeoutError:
            incon.append(f"draining/{variant}: the two jobs had not run after 10 s (loaded machine?)")
            run_task.cancel()
            continue
        if variant == "signal":
            import os

            os.kill(os.getpid(), signal.SIGUSR2)
        elif variant == "consumer_failed":
            fail.set()
            # (probing starts once the worker has registered the failure; how long that takes is the machine's business)
            for _ in range(1000):
                if worker.health_check_server.health_status.value == 503 or run_task.done():
                    break
                await asyncio.sleep(0.005)
            else:
                out.append(V("wrong_status", "draining/flip-not-registered", "the worker's only consumer raised while an actor was executing, but the health status had not become UNHEALTHY 5 s later"))
        elif variant.startswith("race"):
            async def later(n, fn):
                for _ in range(n):
                    await asyncio.sleep(0)
                fn()

            stop_now = loop._signal_handlers[signal.SIGUSR2]._run  # (what the delivery of the signal runs)
            t1, t2 = loop.create_task(later(5, stop_now)), loop.create_task(later(int(variant.split(":")[1]), fail.set))
            await asyncio.gather(t1, t2)
            await asyncio.sleep(0.2)
            stats["consumer_failures_raced_against_a_stop_request"] += 1
            raised = race_failed
            stats["races_in_which_the_consumer_did_fail"] += len(raised)
        want = 503 if (variant == "consumer_failed" or (variant.startswith("race") and raised)) else 200
        # consuming winds down within a few loop turns; the slow actor keeps run() in progress for as long as the gate is shut
        seen = collections.Counter()
        for k in range(3 if variant.startswith("race") else 12):
            await asyncio.sleep(0.02 if k else 0.15)
            if run_task.done():
                out.append(V("harness_or_api_error", f"draining/{variant}", f"run() ended while an actor was still executing: {run_task}"))
                break
            stats["port_lifetime_checks"] += 1
            stats["probes_while_draining"] += 1
            resp, how = await talk(port, [good], read_timeout=2.0)
            code = status_of(resp) if resp else how
            seen[code] += 1
        fps.add(f"draining/{variant}/{sorted(seen)}")
        if variant == "consumer_failed" and seen.get(200) and seen.get(503) and not (set(seen) - {200, 503}):
            seen.pop(200)  # (probes that came in before the failing consume() call was reached)
        if set(seen) != {want}:
            rule = "port_lifetime" if "refused" in seen else "wrong_status"
            if variant.startswith("race"):
                out.append(V(rule, "draining/consumer-failed-around-the-stop-request", f"the worker's only consumer raised {variant.split(':')[1]} loop turns after the last completion ({'it did raise' if raised else 'it was cancelled first'}), "
                                                                                        f"a stop request came 5 turns after it, an actor is still executing: probes answered {dict(seen)}, expected {want}"))
            else:
                out.append(V(rule, f"draining/{variant}", f"consuming has ended ({variant}) while an actor is still executing inside Worker.run(): 12 probes answered {dict(seen)}, expected {want} every time"))
        gate.set()
        try:
            await asyncio.wait_for(run_task, 30)
        except asyncio.TimeoutError:
            out.append(V("port_lifetime", f"draining/{variant}", "run() did not return within 30 s after the last actor finished"))
            run_task.cancel()
        except Exception:  # noqa: BLE001
            pass
        stats["port_lifetime_checks"] += 1
        resp, how = await talk(port, [good], read_timeout=1.0)
        if how != "refused":
            out.append(V("port_lifetime", f"draining/{variant}/after", f"run() is over; port {port} still answers {status_of(resp) if resp else how}"))
            try:
                await worker.health_check_server.stop()
            except Exception:  # noqa: BLE001
                pass
        if "slow" not in finished:
            out.append(V("harness_or_api_error", f"draining/{variant}", "the slow actor never finished"))
        await conn.disconnect()


async def scenario(case, out, stats, fps, samples, incon):
    from repid import Connection, Job, Router, Worker
    from repid.connections.in_memory.consumer import _InMemoryConsumer
    from repid.connections.in_memory.message_broker import InMemoryMessageBroker
    from repid.converter import BasicConverter
    from repid.health_check_server import HealthCheckServerSettings
    from repid.router import RouterDefaults

    rnd = random.Random(case["seed"])
    loop = asyncio.get_running_loop()
    fail = asyncio.Event()

    class FaultyConsumer(_InMemoryConsumer):
        async def start(self):
            if self.queue_name == "qok" and case.get("slow_start"):
                await asyncio.sleep(case["slow_start"])  # a broker round-trip: siblings are up (and may fail) earlier
            await super().start()

        async def consume(self):
            if self.queue_name == "qfail" and fail.is_set():
                # (failure texts as brokers really produce them: reprs of dicts, format-like fragments, lone braces)
                texts = ["consumer failure (injected)", "cannot decode message parameters: {'ttl': 'soon'}", "unexpected frame {", "bad reply }{ %s %(x)s {0} {queue_name}", ""]
                raise RuntimeError(texts[case["seed"] % len(texts)])
            return await super().consume()

    class Broker(InMemoryMessageBroker):
        CONSUMER_CLASS = FaultyConsumer

    conn = Connection(Broker())
    await conn.connect()
    r = Router(defaults=RouterDefaults(converter=BasicConverter))
    done = {"ok": 0, "fail": 0}

    async def work(x: int = 0):
        done["ok"] += 1

    async def victim(x: int = 0):
        done["fail"] += 1

    r.actor(name="work", queue="qok")(work)
    r.actor(name="victim", queue="qfail")(victim)
    port = free_port()
    endpoint = case["endpoint"]
    import signal

    worker = Worker(routers=[r], tasks_limit=5, graceful_shutdown_time=2.0, handle_signals=[signal.SIGUSR1], run_health_check_server=True,
                    health_check_server_settings=HealthCheckServerSettings(address=case["address"], port=port, endpoint_name=endpoint), _connection=conn)
    good = f"GET {endpoint} HTTP/1.1\r\nHost: probe\r\n\r\n".encode()
    # ---- port closed before the run
    stats["port_lifetime_checks"] += 1
    resp, how = await talk(port, [good], read_timeout=1.0)
    if how != "refused":
        out.append(V("port_lifetime", "before-run", f"port {port} answered before Worker.run() started: {how} {resp[:40] if resp else resp}"))
    run_task = loop.create_task(worker.run())

    async def producer():
        i = 0
        while True:
            i += 1
            try:
                await Job("work", queue="qok", id_=f"w{i}", args={"x": i}, store_result=False, _connection=conn).enqueue()
                if i % 5 == 0:
                    await Job("victim", queue="qfail", id_=f"v{i}", args={"x": i}, store_result=False, _connection=conn).enqueue()
            except Exception:  # noqa: BLE001
                pass
            await asyncio.sleep(0.004)

    prod = None
    for _ in range(200):
        resp, how = await talk(port, [good], read_timeout=1.0)
        if how != "refused":
            break
        await asyncio.sleep(0.01)
    else:
        incon.append("health server never came up")
        run_task.cancel()
        return
    prod = loop.create_task(producer())
    expected = {"code": 200}
    state = {"flips": 0}

    async def flip():
        fail.set()
        for _ in range(400):
            if worker.health_check_server.health_status.value == 503:
                break
            await asyncio.sleep(0.005)
        else:
            out.append(V("wrong_status", "flip-not-registered", "consumer of qfail raised, but the health status never became UNHEALTHY within 2 s"))
            return
        expected["code"] = 503
        state["flips"] += 1
        stats["status_flips"] += 1

    async def probe(tag):
        before = done["ok"]
        resp, how = await talk(port, [good])
        if how == "watchdog" or how == "connect-watchdog":
            incon.append(f"probe watchdog after {tag}")
            return False
        code = status_of(resp) if resp else None
        if how == "refused" or resp is None:
            out.append(V("server_dead_after_input", tag, f"after input {tag}: the probe connection was refused"))
            return False
        if code != expected["code"]:
            rule = "status_changed_by_input" if code in (200, 503) else "server_dead_after_input"
            out.append(V(rule, tag, f"after input {tag}: probe GET {endpoint} answered {code} ({resp[:60]!r}), expected {expected['code']}"))
            return False
        # message processing goes on
        for _ in range(300):
            if done["ok"] > before:
                break
            await asyncio.sleep(0.005)
        else:
            out.append(V("processing_disturbed", tag, f"after input {tag}: no job completed on the healthy queue within 1.5 s (completed so far {done['ok']})"))
            return False
        stats["probes_ok"] += 1
        return True

    beat = {"kind": None, "max": 0.0}

    async def heartbeat():
        while True:
            c0 = time.thread_time()
            await asyncio.sleep(0.005)
            beat["max"] = max(beat["max"], time.thread_time() - c0)

    hb = loop.create_task(heartbeat())
    inputs = make_inputs(rnd, endpoint, case["ninputs"])
    held = None
    held_task = None
    if case["fail_at"] == "start":
        await flip()
        if case.get("slow_start"):
            await asyncio.sleep(case["slow_start"] + 0.1)  # let the slow sibling finish starting: the status must stay 503
            stats["failures_during_sibling_startup"] += 1
    mid = len(inputs) // 2
    for idx, (kind, chunks, want) in enumerate(inputs):
        if state.get("burned") and str(kind).startswith("long_segment"):
            continue
        if case["fail_at"] == "middle" and idx == mid:
            # a connection accepted before the failure and used after it
            held = asyncio.Event()
            held_task = loop.create_task(talk(port, [good], hold=held))
            await asyncio.sleep(0.05)
            await flip()
            held.set()
            resp, how = await held_task
            stats["inputs_judged"] += 1
            stats["wellformed_checked"] += 1
            fps.add(f"held-across-flip/{endpoint}")
            code = status_of(resp) if resp else None
            if code != 503:
                out.append(V("wrong_status", "connection-accepted-before-failure", f"a connection accepted before the consumer failure and used after it answered {code}, expected 503"))
        stats["inputs_judged"] += 1
        if chunks == "MANY":
            n = rnd.choice([60, 200])
            res = await asyncio.gather(*[talk(port, [good]) for _ in range(n)])
            codes = collections.Counter(status_of(r_) if r_ else how_ for r_, how_ in res)
            stats["wellformed_checked"] += n
            fps.add(f"many/{n}/{expected['code']}")
            bad = {k: v for k, v in codes.items() if k != expected["code"]}
            if bad:
                out.append(V("wrong_status", "many-connections", f"{n} concurrent GETs: {dict(codes)}, expected all {expected['code']}"))
        else:
            pause = 0.002 if kind == "frag1" else (0.03 if kind == "frag2" else 0.0)
            beat["kind"], beat["max"] = kind, 0.0
            resp, how = await talk(port, chunks, pause=pause, read_timeout=5.0 if chunks else 0.3)
            await asyncio.sleep(0.02)
            stats["heartbeats"] += 1
            if beat["max"] > 0.4 and sum(map(len, chunks)) < 4096:
                state["burned"] = True  # (further inputs of that family are skipped: each would cost the same minutes again)
                # (CPU time the event-loop thread spent between two turns of a 5 ms heartbeat: one callback that computes for
                # that long; a loaded machine cannot produce it, wall time is not involved)
                out.append(V("processing_disturbed", kind + "/cpu-burn", f"{sum(map(len, chunks))} request bytes ({chunks[0][:48]!r}...) kept the worker's event loop thread computing for {beat['max']:.2f}s in one go: nothing else - jobs, probes, signals - ran meanwhile"))
            import hashlib

            fps.add(hashlib.sha1(b"|".join(chunks)[:4096] + str(len(chunks)).encode() + str(expected["code"]).encode()).hexdigest()[:12])
            if how == "refused":
                out.append(V("server_dead_after_input", kind, f"connection refused when sending input {kind}"))
            if want == -1:
                stats["foreign_byte_requests"] += 1
                code = status_of(resp) if resp else None
                if code in (200, 503):
                    out.append(V("wrong_status", kind, f"{chunks[0][:60]!r} is not a GET of the endpoint, yet it was answered with the health status {code}"))
            elif want is not None:
                stats["wellformed_checked"] += 1
                w_ = want if want != 200 else expected["code"]
                code = status_of(resp) if resp else None
                if how == "watchdog":
                    incon.append(f"well-formed {kind}: no EOF within 5 s")
                elif code != w_:
                    out.append(V("wrong_status", kind, f"{chunks[0][:60]!r} answered {code} ({(resp or b'')[:50]!r}), expected {w_} (health {expected['code']})"))
                elif resp and b"Content-Length" in resp:
                    body = resp.split(b"\r\n\r\n", 1)[1] if b"\r\n\r\n" in resp else b""
                    try:
                        cl = int(resp.split(b"Content-Length: ")[1].split(b"\r\n")[0])
                        if cl != len(body):
                            out.append(V("wrong_status", kind + "/content-length", f"Content-Length {cl} but body {body!r}"))
                    except Exception:  # noqa: BLE001
                        pass
            else:
                stats["malformed_sent"] += 1
                if how == "watchdog" and chunks:
                    stats["malformed_left_open"] += 1  # allowed: not answered, connection kept open
        await probe(kind)
        if len(out) > 6:
            break
    if case["fail_at"] == "end":
        await flip()
        await probe("after-flip")
    # ---- clients that keep their connections open while the worker stops
    lingering = []
    for lk in case.get("linger", ()):
        try:
            lr, lw = await asyncio.wait_for(asyncio.open_connection("127.0.0.1", port), 3.0)
        except Exception:  # noqa: BLE001
            continue
        if lk == "partial":
            lw.write(f"GET {endpoint} HT".encode())
        elif lk == "binary":
            lw.write(bytes(rnd.randrange(256) for _ in range(40)))
        elif lk == "slow_reader":
            lw.write(good)  # a complete request whose answer the client never reads, never closing either
        lingering.append((lk, lr, lw))
        stats["lingering_connections"] += 1
    if lingering:
        await asyncio.sleep(0.05)
        resp, how = await talk(port, [good], read_timeout=3.0)
        stats["inputs_judged"] += 1
        want = expected["code"]
        if resp is None or status_of(resp) != want:
            out.append(V("wrong_status", "while-lingering", f"with {[k for k, _, _ in lingering]} connections open GET {endpoint} -> {status_of(resp) if resp else how}, expected {want}"))
    # ---- end of the run: port closes
    hb.cancel()
    stats["jobs_completed"] += done["ok"]
    if prod:
        prod.cancel()
    if case["end"] == "signal":
        os_kill = __import__("os").kill
        os_kill(__import__("os").getpid(), signal.SIGUSR1)
        try:
            await asyncio.wait_for(run_task, 12)
        except asyncio.TimeoutError:
            if lingering:
                out.append(V("port_lifetime", "run-hung", f"Worker.run() had not returned 12 s after the stop signal (graceful 2 s) while clients kept {[k for k, _, _ in lingering]} connections open"))
            else:
                incon.append("run() did not return 12 s after the signal")
            run_task.cancel()
        except Exception as exc:  # noqa: BLE001
            out.append(V("port_lifetime", "run-raised", f"Worker.run raised {exc!r}"))
        ctx = "after-return"
    else:
        run_task.cancel()
        try:
            await asyncio.wait_for(run_task, 5)
        except asyncio.TimeoutError:
            if lingering:
                out.append(V("port_lifetime", "cancel-hung", f"a cancelled Worker.run() was still not over 5 s later while clients kept {[k for k, _, _ in lingering]} connections open"))
        except (asyncio.CancelledError, Exception):  # noqa: BLE001
            pass
        ctx = "after-cancelled-run"
    if lingering:
        stats["shutdowns_with_lingering_connections"] += 1
    await asyncio.sleep(0.05)
    stats["port_lifetime_checks"] += 1
    resp, how = await talk(port, [good], read_timeout=1.0)
    if how != "refused":
        out.append(V("port_lifetime", ctx, f"Worker.run() is over ({ctx}) but port {port} still accepts connections and answers {status_of(resp) if resp else how}"))
        try:
            await worker.health_check_server.stop()
        except Exception:  # noqa: BLE001
            pass
    for _, _, lw in lingering:
        try:
            lw.close()
        except Exception:  # noqa: BLE001
            pass
    if len(samples) < 1:
        samples.append({"linger": list(case.get("linger", ())), "address": case["address"], "endpoint": endpoint, "fail_at": case["fail_at"], "inputs": [k for k, _, _ in inputs][:12], "jobs_completed": done["ok"], "end": case["end"]})
    try:
        await conn.disconnect()
    except Exception:  # noqa: BLE001
        pass


def run_case(case):
    from rv.sim.loop import wall_passthrough

    wall_passthrough()
    stats = collections.Counter()
    out, fps, samples, incon = [], set(), [], []
    t0 = time.perf_counter()
    try:
        if case.get("type") == "idle_worker":
            asyncio.run(idle_worker_scenario(case, out, stats, fps))
        elif case.get("type") == "draining":
            asyncio.run(draining_scenario(case, out, stats, fps, incon))
        else:
            asyncio.run(scenario(case, out, stats, fps, samples, incon))
    except Exception as exc:  # noqa: BLE001
        import traceback

        incon.append("scenario crashed: " + "".join(traceback.format_exception(exc))[-600:])
    seen, vv = set(), []
    for v in out:
        if (v["rule"], v["context"]) not in seen:
            seen.add((v["rule"], v["context"]))
            vv.append(v)
    r = {"fp": None, "fps": sorted(fps), "viol": vv[:8], "stats": dict(stats)}
    if incon and not vv:
        r["inconclusive"] = "; ".join(incon)[:400]
    if samples:
        r["sample"] = samples[0]
    return r

"""C09 - concurrency never exceeds tasks_limit and the worker never stalls.

Real Workers under saturation with adversarial arrival patterns on a virtual clock. A synchronous in-flight counter at
actor entry/exit gives the exact concurrency; progress is judged as bounded progress: every job executed within a
computed makespan bound, and a freed slot with backlog is refilled within a fixed allowance.
"""
from __future__ import annotations

import asyncio
import collections
import random
from datetime import timedelta

LEVEL = "exploration"
RULE = ("tasks_limit {1,2,3,10,1000} x 1-3 queues sharing the limit x duration profile {zero, equal, bimodal, one very long} x "
        "failures on/off x arrivals {all before start, bursts while saturated, exactly when a slot frees, trickle} x broker; "
        "evaluation = one actor entry judged (+ one makespan verdict per run); fingerprint = (broker, limit, queues, durations, "
        "arrivals, failures, n bucket); trivial = runs where the limit was never reached and limit < 1000")
ASSUMPTIONS = ["Redis and RabbitMQ are wire-level fakes", "virtual time; 'eventually' restated as: all n jobs executed by sum(d)/limit + max(d) + n*delta + last arrival + 12 s, refill of a freed slot within 3 s"]
EVAL_COUNTER = "entries_judged"
REQUIRED = ["entries_judged", "runs_saturated", "arrival_slot_free", "arrival_burst", "refills_judged", "thread_runs", "thread_overrun_runs", "thread_rendezvous_runs", "ttl_expired_while_waiting_for_a_slot", "runs_with_a_slow_hook_after_every_received_message"]
CASE_TIMEOUT = 150

LIMITS = [1, 2, 3, 10, 1000]
DURS = ["zero", "equal", "bimodal", "one_long"]
ARRS = ["before", "burst", "slot_free", "trickle"]
REFILL = 3.0


def gen_cases(tier, seed):
    rnd = random.Random(seed)
    cases = []
    for kind in ("mem", "redis", "rabbit"):
        combos = [(l, nq, d, a, f) for l in LIMITS for nq in (1, 2, 3) for d in DURS for a in ARRS for f in (False, True)]
        rnd.shuffle(combos)
        n = {"quick": 36 if kind == "mem" else 14, "thorough": 300 if kind == "mem" else 90}[tier]
        for ci, (l, nq, d, a, f) in enumerate(combos[:n]):
            cases.append({"kind": kind, "limit": l, "nq": nq, "dur": d, "arr": a, "fail": f, "n": rnd.choice([6, 12, 25]) if l < 10 else rnd.choice([15, 40]),
                          "seed": rnd.randrange(10**6), "latency": None if kind == "mem" else rnd.choice([None, 0.002]),
                          # RabbitMQ takes the consumers away while the worker runs (consumer cancel notification): they come back
                          "srv_cancel": kind == "rabbit" and ci % 3 == 0})
    # a backlog in every priority class, and a worker whose hook after every received message takes its time (tracing, metrics):
    # the pause request reaches the consumer while it is already busy with its next message
    for kind in ("mem", "redis", "rabbit"):
        for l in (1, 2):
            for hook in ((0.02,) if tier == "quick" else (0.005, 0.02, 0.2)):
                cases.append({"kind": kind, "limit": l, "nq": 1, "dur": "equal", "arr": "before", "fail": False, "n": 15, "seed": rnd.randrange(10**6), "latency": None if kind == "mem" else [None, 0.002][l - 1],
                              "prios": True, "slow_hook": hook, "srv_cancel": False})
    # a message with a time-to-live is taken while every slot is busy and outlives it while it waits for one: whatever becomes
    # of that message, the queue is served again as soon as a slot is free
    for kind in ("mem", "redis", "rabbit"):
        for tl in (1, 2):
            cases.append({"kind": kind, "type": "ttl_wait", "limit": tl, "seed": rnd.randrange(10**6), "latency": None if kind == "mem" else 0.002})
    # real threads, real time: synchronous actors through the ThreadPoolExecutor path of asyncify (no virtual loop)
    for l in (1, 2, 3):
        cases.append({"kind": "mem", "type": "threads", "limit": l, "n": 14, "seed": rnd.randrange(10**6)})
    # a synchronous actor that is still running when its execution timeout fires keeps its slot until it really returns
    cases.append({"kind": "mem", "type": "threads", "mode": "overrun", "limit": 1, "n": 3, "seed": 1})
    cases.append({"kind": "mem", "type": "threads", "mode": "overrun", "limit": 2, "n": 5, "seed": 2})
    # more synchronous invocations at once than any shared thread pool would have threads: tasks_limit is the only cap
    cases.append({"kind": "mem", "type": "threads", "mode": "rendezvous", "limit": 64, "n": 44, "seed": 3})
    return cases


def threads_case(case, out, stats, fps):
    """Smoke scenario on the stock loop: sync actors really run in worker threads; the in-flight counter is kept under a lock."""
    import threading
    import time as _t

    from repid import Connection, Job, Router, Worker
    from repid.connections import InMemoryMessageBroker
    from repid.converter import BasicConverter
    from repid.router import RouterDefaults
    from rv.sim.loop import wall_passthrough

    wall_passthrough()
    lock = threading.Lock()
    st = {"cur": 0, "max": 0, "done": 0, "threads": set()}

    async def main():
        conn = Connection(InMemoryMessageBroker())
        await conn.connect()
        r = Router(defaults=RouterDefaults(converter=BasicConverter))

        mode = case.get("mode", "plain")
        barrier = threading.Barrier(case["n"]) if mode == "rendezvous" else None

        def sync_actor(x: int = 0):
            with lock:
                st["cur"] += 1
                st["max"] = max(st["max"], st["cur"])
                st["threads"].add(threading.get_ident())
            try:
                if mode == "overrun" and x == 0:
                    _t.sleep(1.7)  # still running after its 1 s execution timeout has fired
                elif mode == "rendezvous":
                    try:
                        barrier.wait(timeout=12)  # returns only when ALL n invocations are in progress at once
                        with lock:
                            st["met"] = st.get("met", 0) + 1
                    except threading.BrokenBarrierError:
                        pass
                else:
                    _t.sleep(0.03)
            finally:
                with lock:
                    st["cur"] -= 1
                    st["done"] += 1

        r.actor(name="sync_actor")(sync_actor)
        await conn.message_broker.queue_declare("default")
        for i in range(case["n"]):
            await Job("sync_actor", id_=f"t{i}", args={"x": i}, store_result=False, _connection=conn,
                      **({"timeout": __import__("datetime").timedelta(seconds=1)} if mode == "overrun" else {})).enqueue()
        w = Worker(routers=[r], tasks_limit=case["limit"], messages_limit=case["n"], handle_signals=[], _connection=conn)
        await asyncio.wait_for(w.run(), 60)
        await conn.disconnect()

    asyncio.run(main())
    stats["entries_judged"] += case["n"]
    stats["thread_runs"] += 1
    fps.add(f"threads/{case['limit']}/{len(st['threads']) > 1}")
    main_thread = threading.get_ident()
    if st["max"] > case["limit"]:
        out.append(V("over_limit", "mem", f"threads/limit={case['limit']}", f"{st['max']} synchronous actors ran at once in worker threads with tasks_limit={case['limit']}"))
    if st["done"] < min(case["n"], case["n"]):
        out.append(V("stall", "mem", "threads", f"only {st['done']} of {case['n']} sync jobs completed"))
    if case.get("mode") == "rendezvous":
        stats["thread_rendezvous_runs"] += 1
        if st.get("met", 0) < case["n"]:
            out.append(V("stall", "mem", "threads/rendezvous", f"{case['n']} synchronous actors with tasks_limit={case['limit']} never were in progress together (only {st['max']} at once): free slots, deliverable messages, no start"))
    if case.get("mode") == "overrun":
        stats["thread_overrun_runs"] += 1
    if main_thread in st["threads"]:
        out.append(V("harness_or_api_error", "mem", "threads", "sync actor ran on the event-loop thread"))


def V(rule, kind, ctx, detail):
    return {"rule": rule, "broker": kind, "context": ctx, "detail": detail}


def make_durations(profile, n, rnd):
    if profile == "zero":
        return [0.0] * n
    if profile == "equal":
        return [0.5] * n
    if profile == "bimodal":
        return [rnd.choice([0.05, 2.0]) for _ in range(n)]
    ds = [0.2] * n
    ds[rnd.randrange(n)] = 15.0
    return ds


async def ttl_wait_scenario(loop, case, out, stats, fps):
    from rv.wl import World, run_worker

    kind, limit = case["kind"], case["limit"]
    w = World(loop, kind, converter="basic", seed=case["seed"], latency=case["latency"])
    try:
        await w.open()
        r = w.router()
        w.scripted_actor(r, "act")
        await w.conn.message_broker.queue_declare("default")
        plan = [("long", 3.0, None)] * limit + [("short-lived", 0.05, 1.0)] + [("plain", 0.05, None)] * 3
        ids = []
        for i, (what, d, ttl) in enumerate(plan):
            ids.append(f"t{i}")
            await w.job("act", f"t{i}", {"do": "ok", "d": d}, ttl=timedelta(seconds=ttl) if ttl else None, timeout=timedelta(seconds=30), store_result=False).enqueue()
        worker = w.worker([r], tasks_limit=limit, graceful_shutdown_time=5.0, handle_signals=[__import__("signal").SIGUSR1])
        plain = {f"t{i}" for i, (what, _d, _t) in enumerate(plan) if what != "short-lived"}

        def done():
            return plain <= {e["id"] for e in w.log.events if e.get("k") == "actor_end"}

        info = await run_worker(w, worker, until=done, horizon=20.0, poll=0.1)
        stats["entries_judged"] += len(w.events("actor_start"))
        stats["ttl_expired_while_waiting_for_a_slot"] += 1
        fps.add(f"{kind}/ttl_wait/{limit}")
        if info["exc"] is not None or not info["returned"]:
            out.append(V("stall", kind, "worker-run", f"Worker.run: exc={info['exc']!r} returned={info['returned']}"))
        missing = sorted(plain - {e["id"] for e in w.log.events if e.get("k") == "actor_end"})
        if missing:
            out.append(V("stall", kind, f"limit={limit}/after-expired-message", f"{missing} not executed within 20 s after a message whose time-to-live ran out while it waited for a slot; state {[w.rig.snapshot().get(m) for m in missing]}"))
        for e in w.events("actor_start"):
            if e["inflight"] > limit:
                out.append(V("over_limit", kind, f"limit={limit}/ttl_wait", f"{e['inflight']} in progress with tasks_limit={limit}"))
                break
        stats["unknown_server_commands"] += w.rig.unknown_commands()
    finally:
        await w.close()


async def scenario(loop, case, out, stats, fps, samples):
    from rv.wl import World, run_worker

    kind, limit, nq = case["kind"], case["limit"], case["nq"]
    rnd = random.Random(case["seed"])
    w = World(loop, kind, converter="basic", seed=case["seed"], latency=case["latency"])
    try:
        await w.open()
        r = w.router(retry_policy=lambda retry_number=1: timedelta(seconds=0.2))
        queues = [f"q{i}" for i in range(nq)]
        for i, q in enumerate(queues):
            w.scripted_actor(r, f"act{i}", queue=q)
            await w.conn.message_broker.queue_declare(q)
        n = case["n"]
        ds = make_durations(case["dur"], n, rnd)
        jobs = []
        for i in range(n):
            qi = rnd.randrange(nq)
            fails = case["fail"] and rnd.random() < 0.3
            # a failure pattern of its own: the actor lets a CancelledError escape (not an Exception: the execution ends
            # without a disposition, but its slot must come back and the other jobs must go on)
            leaks = case["fail"] and not fails and rnd.random() < 0.2
            steps = ([{"do": "raise", "d": ds[i]}] if fails else []) + [{"do": "ok", "d": ds[i]}]
            if leaks:
                steps = [{"do": "raise", "exc": "CancelledError", "d": ds[i]}]
                stats["leaked_cancellations"] += 1
            hangs = case["fail"] and not fails and not leaks and rnd.random() < 0.15
            if hangs:
                # times out after 1 s and needs 0.6 s more to unwind: it is in progress (and keeps its slot) until then
                steps = [{"do": "hang_cleanup", "cleanup": 0.6}, {"do": "ok", "d": ds[i]}]
                stats["slow_unwinding_timeouts"] += 1
            jobs.append({"id": f"j{i:03d}", "name": f"act{qi}", "queue": queues[qi], "script": {"by_attempt": steps}, "d": ds[i] * (2 if fails else 1) + (1.8 if hangs else 0), "retries": 1, "leaks": leaks,
                         "timeout": 1.0 if hangs else 60.0})
        arr = case["arr"]
        enq_at = {}
        if case.get("slow_hook"):
            stats["runs_with_a_slow_hook_after_every_received_message"] += 1

            async def after_consume():
                await asyncio.sleep(case["slow_hook"])

            w.conn.middleware.add_subscriber(after_consume)
        from repid import PrioritiesT

        async def enq(j):
            kwp = {"priority": [PrioritiesT.HIGH, PrioritiesT.MEDIUM, PrioritiesT.LOW][int(j["id"][1:]) % 3]} if case.get("prios") else {}
            await w.job(j["name"], j["id"], j["script"], queue=j["queue"], retries=j["retries"], timeout=timedelta(seconds=j["timeout"]), store_result=False, **kwp).enqueue()
            enq_at[j["id"]] = loop.time()

        pre = jobs if arr == "before" else jobs[: max(1, min(len(jobs) // 3, limit + 1))]
        rest = [j for j in jobs if j not in pre]
        for j in pre:
            await enq(j)
        worker = w.worker([r], tasks_limit=limit, graceful_shutdown_time=20.0, handle_signals=[__import__("signal").SIGUSR1])
        total = sum(j["d"] for j in jobs)
        delta = {"mem": 0.3, "redis": 1.5, "rabbit": 0.5}[kind]

        async def producer():
            if arr == "burst":
                stats["arrival_burst"] += 1
                while rest:
                    await asyncio.sleep(rnd.choice([0.3, 1.0]))
                    for _ in range(min(len(rest), rnd.choice([2, 5]))):
                        await enq(rest.pop(0))
            elif arr == "slot_free":
                stats["arrival_slot_free"] += 1
                # enqueue at the very instant an actor finishes (the exit event is logged synchronously inside the actor)
                seen = 0
                while rest:
                    exits = [e for e in w.log.events if e.get("k") == "actor_exit"]
                    if len(exits) > seen:
                        seen = len(exits)
                        await enq(rest.pop(0))
                    else:
                        await asyncio.sleep(0)  # same virtual instant as whatever just ran
                        if not any(True for _ in [1]) or loop.time() > 200:
                            break
                        await asyncio.sleep(0.001)
            elif arr == "trickle":
                while rest:
                    await asyncio.sleep(0.37)
                    await enq(rest.pop(0))

        prod = loop.create_task(producer())
        if case.get("srv_cancel"):
            async def canceller():
                for at in (0.45, 1.3, 1.3005, 3.1):
                    await asyncio.sleep(max(0.0, at - (loop.time() - t_run0)))
                    stats["consumer_cancel_notifications"] += w.rig.server.server_cancel()

            t_run0 = loop.time()
            canc = loop.create_task(canceller())

        leaking = {j["id"] for j in jobs if j["leaks"]}

        def done():
            fin = {e["id"] for e in w.log.events if e.get("k") == "call" and e.get("depth") == 0 and e.get("op") in ("ack", "nack")}
            fin |= {e["id"] for e in w.log.events if e.get("k") == "actor_exit" and e["id"] in leaking}
            return not rest and len(fin) >= n

        bound = total / min(limit, n) + max(ds) * 2 + n * delta + 12.0 + (n * 0.4 if arr in ("trickle", "burst") else 0) + (sum(sorted(ds)[-n:]) if arr == "slot_free" else 0)
        info = await run_worker(w, worker, until=done, horizon=bound, poll=0.1)
        prod.cancel()
        if case.get("srv_cancel"):
            canc.cancel()
        if info["exc"] is not None or not info["returned"]:
            out.append(V("stall", kind, "worker-run", f"Worker.run: exc={info['exc']!r} returned={info['returned']}"))
        # ---- monitor
        ctx = f"limit={limit if limit < 1000 else 'inf'}/{case['arr']}"
        starts = [e for e in w.log.events if e.get("k") == "actor_start"]
        exits = [e for e in w.log.events if e.get("k") == "actor_exit"]
        for e in starts:
            stats["entries_judged"] += 1
            if e["inflight"] > limit:
                out.append(V("over_limit", kind, ctx, f"{e['inflight']} actor invocations in progress at +{e['t']:.3f}s with tasks_limit={limit} ({case['nq']} queues)"))
                break
        leaked_started = [e["id"] for e in starts if e["id"] in leaking]
        if kind == "rabbit" and leaked_started:
            # RabbitMQ counts the never-acknowledged delivery against the prefetch window (= tasks_limit) for good: the
            # window shrinks by one per leaked cancellation. One mechanism, one key.
            ctx_progress = "unacked-after-leaked-cancellation"
        else:
            ctx_progress = ctx
        reached = max((e["inflight"] for e in starts), default=0)
        if reached >= min(limit, n) and limit < 1000:
            stats["runs_saturated"] += 1
        finished = {e["id"] for e in w.log.events if e.get("k") == "call" and e.get("depth") == 0 and e.get("op") in ("ack", "nack")}
        finished |= {e["id"] for e in exits if e["id"] in leaking}  # executed; what happens to their messages is not C09's subject
        missing = [j["id"] for j in jobs if j["id"] not in finished]
        if missing:
            never = [m for m in missing if not any(s["id"] == m for s in starts)]
            out.append(V("stall", kind, ctx_progress, f"{len(missing)} of {n} jobs not finished within the bound {bound:.1f}s (never started: {never[:5]}); max in flight {reached}; state {dict(list(w.rig.snapshot().items())[:4])}"))
        # refill: a slot freed while a started-able backlog exists is taken again within REFILL seconds
        if not missing:
            first_start = {}
            for s in starts:
                first_start.setdefault(s["id"], s["t"])
            for x in exits:
                if x["inflight"] >= limit:
                    continue
                waiting = [i for i, t in enq_at.items() if t <= x["t"] - 0.05 and first_start.get(i, 1e18) > x["t"]]
                if not waiting:
                    continue
                stats["refills_judged"] += 1
                nxt = min((s["t"] for s in starts if s["t"] >= x["t"]), default=None)
                if nxt is None or nxt - x["t"] > REFILL:
                    out.append(V("slow_refill", kind, ctx_progress, f"a slot freed at +{x['t']:.3f}s with {len(waiting)} jobs waiting, next start at {nxt}"))
                    break
        nb = "s" if n <= 8 else "m" if n <= 20 else "l"
        if reached >= min(limit, n) or limit >= 1000:
            fps.add(f"{kind}/{limit}/{nq}/{case['dur']}/{case['arr']}/{int(case['fail'])}/{nb}")
        if len(samples) < 1:
            samples.append({"broker": kind, "tasks_limit": limit, "queues": nq, "durations": case["dur"], "arrivals": arr, "n": n, "max_in_flight": reached,
                            "finished_at_s": round(max((e["t"] for e in exits), default=0), 3), "bound_s": round(bound, 1)})
        stats["unknown_server_commands"] += w.rig.unknown_commands()
    finally:
        await w.close()


def run_case(case):
    from rv.sim import loop as vl

    stats = collections.Counter()
    out, fps, samples = [], set(), []
    if case.get("type") == "threads":
        threads_case(case, out, stats, fps)
        return {"fp": None, "fps": sorted(fps), "viol": out[:4], "stats": dict(stats)}
    if case.get("type") == "ttl_wait":
        res = vl.run(lambda loop: ttl_wait_scenario(loop, case, out, stats, fps), max_steps=6_000_000, seed=case["seed"])
    else:
        res = vl.run(lambda loop: scenario(loop, case, out, stats, fps, samples), max_steps=6_000_000, seed=case["seed"])
    if res.exc is not None:
        if isinstance(res.exc, vl.Deadlock):
            out.append(V("stall", case["kind"], "deadlock", f"nothing scheduled and nothing ready: {res.exc}"))
        elif isinstance(res.exc, vl.StepLimit):
            return {"fp": None, "viol": [], "stats": dict(stats), "inconclusive": str(res.exc)}
        else:
            out.append(V("harness_or_api_error", case["kind"], "scenario", f"{type(res.exc).__name__}: {res.exc}"))
    if res.exc_log:
        out.append(V("inv:loop", case["kind"], "unhandled", f"event loop reported: {res.exc_log[:2]}"))
    if stats.get("unknown_server_commands"):
        return {"fp": None, "viol": [], "stats": dict(stats), "inconclusive": "fake server saw unknown commands"}
    r = {"fp": None, "fps": sorted(fps), "viol": out[:6], "stats": dict(stats)}
    if samples and case["cid"] % 6 == 0:
        r["sample"] = samples[0]
    return r

"""C19 - schedule arithmetic is well-behaved for all inputs.

The real functions (default_retry_policy_factory, Parameters.compute_next_execution_time, the four
is_overdue predicates) are called under a wall clock pinned at the libc boundary; a closed-form oracle
judges each evaluation. Inputs: seeded random draws plus explicit boundary grids.
"""
from __future__ import annotations

import random
from datetime import datetime, timedelta

LEVEL = "exploration"
RULE = ("seeded random inputs + boundary grids per function class; an evaluation is one call of the real function "
        "judged by the closed-form oracle; fingerprint = (class, boundary bucket of the input); trivial = none")
ASSUMPTIONS = [
    "wall clock pinned by LD_PRELOAD interposition of clock_gettime/gettimeofday/time",
    "cron schedules not exercised (croniter is not installed in this sandbox)",
    "back-off: integer factory parameters as in the signature; max_exponent capped at 20000 for cost",
]
EVAL_COUNTER = "evaluations"
REQUIRED = ["backoff_evals", "next_evals", "overdue_evals", "delay_until_ahead", "now_before_base", "now_on_grid", "with_scheduled_time", "stored_bucket_probes", "timezone_offset_cases", "wire_conversions", "overdue_evals_with_a_ttl_of_zero_or_less", "expiry_probes_at_a_waiting_consumer"]

US = timedelta(microseconds=1)


def gen_cases(tier, seed):
    n = {"quick": 1500, "thorough": 60000}[tier]
    cases = []
    for i in range(16):
        cases.append({"kind": "backoff", "n": n // 4, "seed": seed * 1000 + i})
        cases.append({"kind": "next", "n": n, "seed": seed * 1000 + 100 + i})
        cases.append({"kind": "overdue", "n": n // 2, "seed": seed * 1000 + 200 + i})
    cases.append({"kind": "backoff_grid"})
    for i in range(3 if tier == "quick" else 12):
        cases.append({"kind": "bucket_store", "seed": seed * 1000 + 300 + i})
    cases.append({"kind": "next_grid"})
    for i in range(1 if tier == "quick" else 4):
        cases.append({"kind": "idle_consumer", "seed": seed * 1000 + 800 + i})
    # what the brokers make of a scheduled time: the relative expiration RabbitMQ is given, the score Redis stores
    for i in range(2 if tier == "quick" else 12):
        cases.append({"kind": "wire", "n": 400 if tier == "quick" else 3000, "seed": seed * 1000 + 600 + i})
    # the same arithmetic where local time is not UTC (every datetime involved is a naive local one)
    for i, tz in enumerate(("JST-9", "EST5", "IST-5:30", "CHAST-12:45")):
        cases.append({"kind": "next", "n": n // 2, "seed": seed * 1000 + 400 + i, "tz": tz})
        cases.append({"kind": "overdue", "n": n // 4, "seed": seed * 1000 + 500 + i, "tz": tz})
        cases.append({"kind": "wire", "n": 200 if tier == "quick" else 1500, "seed": seed * 1000 + 700 + i, "tz": tz})
    return cases


def _viol(rule, ctx, detail):
    return {"rule": rule, "broker": "-", "context": ctx, "detail": detail}


def _rand_dt(rnd, lo_year=1971, hi_year=2200):
    base = datetime(rnd.randint(lo_year, hi_year), rnd.randint(1, 12), rnd.randint(1, 28))
    return base + timedelta(seconds=rnd.randint(0, 86399), microseconds=rnd.choice([0, 0, 1, 500000, 999999, rnd.randint(0, 999999)]))


def _rand_period(rnd):
    k = rnd.random()
    if k < 0.2:
        return timedelta(seconds=1)
    if k < 0.4:
        return timedelta(seconds=rnd.randint(1, 100))
    if k < 0.6:
        return timedelta(seconds=rnd.randint(1, 10**7), microseconds=rnd.randint(0, 999999))
    if k < 0.8:
        return timedelta(seconds=rnd.choice([1, 2, 60, 3600, 86400]), microseconds=rnd.choice([0, 1, 999999]))
    return timedelta(seconds=10**7)


def check_backoff(params, ns, out, stats, fps):
    from repid.retry_policy import default_retry_policy_factory

    mn, mx, mult, mexp = params
    try:
        pol = default_retry_policy_factory(min_backoff=mn, max_backoff=mx, multiplier=mult, max_exponent=mexp)
    except Exception as exc:  # noqa: BLE001
        out.append(_viol("backoff_raises", "factory", f"factory{params} raised {exc!r}"))
        return
    prev = None
    for n in ns:
        stats["evaluations"] += 1
        stats["backoff_evals"] += 1
        try:
            v = pol(n)
        except Exception as exc:  # noqa: BLE001
            out.append(_viol("backoff_raises", "policy", f"policy{params}({n}) raised {exc!r}"))
            return
        if not isinstance(v, timedelta):
            out.append(_viol("backoff_bounds", "type", f"policy{params}({n}) -> {v!r}"))
            return
        s = v.total_seconds()
        if s < mn or s > mx:
            out.append(_viol("backoff_bounds", "range", f"policy{params}({n}) = {s} not in [{mn},{mx}]"))
            return
        if prev is not None and v < prev[1]:
            out.append(_viol("backoff_monotone", "decrease", f"policy{params}: f({prev[0]})={prev[1]} > f({n})={v}"))
            return
        prev = (n, v)
        cls = "min" if s == mn else "max" if s == mx else "mid"
        fps.add(f"backoff/{cls}/{'cap' if n >= mexp else 'grow'}/{len(str(mx))}/{len(str(n))}")


def check_next(ts, now, p, du, out, stats, fps, sched=None):
    """`sched`: the scheduled time the message carries for its current run (next_execution_time), if any.
    The statement speaks of "its time base" without fixing it: the scheduled time of the current run and deferred_until are
    both accepted as the base of the period grid when the message carries them, the creation timestamp otherwise."""
    from repid.data._parameters import DelayProperties, Parameters
    from rv.sim.clock import pin

    params = Parameters(delay=DelayProperties(delay_until=du, defer_by=p, next_execution_time=sched), timestamp=ts)
    pin(now)
    stats["evaluations"] += 1
    stats["next_evals"] += 1
    try:
        nxt = params.compute_next_execution_time
    except Exception as exc:  # noqa: BLE001
        out.append(_viol("next_raises", "compute", f"ts={ts} now={now} p={p} du={du}: {exc!r}"))
        return
    ctx = f"ts={ts.isoformat()} now={now.isoformat()} p={p.total_seconds()} du={du.isoformat() if du else None} -> {nxt}"
    ahead = du is not None and du > now
    if ahead:
        stats["delay_until_ahead"] += 1
        if nxt != du:
            out.append(_viol("deferred_until", "ahead", ctx))
        fps.add("next/du_ahead/" + ("us" if du.microsecond else "s"))
        return
    if nxt is None:
        out.append(_viol("next_window", "none", ctx))
        return
    # the grid's base: the documentation says a job with deferred_until "recurrently continues" from there, and a rescheduled
    # message continues from the time its current run was scheduled for; the creation timestamp is the base only when the
    # message carries neither
    bases = [b for b in (sched, du) if b is not None] or [ts]
    if du is not None and nxt == du:
        out.append(_viol("deferred_until", "stale", ctx))
        return
    if not any((nxt - b) % p == timedelta(0) for b in bases):
        out.append(_viol("next_not_on_grid", "grid", ctx + f" sched={sched}"))
    if not (now < nxt <= now + p):
        out.append(_viol("next_window", "window", ctx))
    # the schedule is a function of time base, period and clock: how often the current run was retried is not part of it
    from repid.data._parameters import RetriesProperties

    try:
        tried = Parameters(delay=DelayProperties(delay_until=du, defer_by=p, next_execution_time=sched), timestamp=ts,
                           retries=RetriesProperties(max_amount=5, already_tried=1 + stats["next_evals"] % 3)).compute_next_execution_time
        stats["retried_run_evals"] += 1
        if tried != nxt:
            out.append(_viol("next_not_on_grid", "retried-run", ctx + f": the same message after a retry (already_tried > 0) is scheduled for {tried}"))
    except Exception as exc:  # noqa: BLE001
        out.append(_viol("next_raises", "retried-run", f"{ctx}: {exc!r}"))
    # the successor actually handed to the broker (what a reschedule stores) follows the same arithmetic: judged against
    # the ORIGINAL message's time base, because the copy's own timestamp is the restarted clock
    prep = getattr(params, "_prepare_reschedule", None)
    if prep is None:
        stats["reschedule_helper_absent"] += 1  # private helper renamed: the end-to-end path is C06's
        prep = lambda: params  # noqa: E731
    try:
        succ = prep()
    except Exception as exc:  # noqa: BLE001
        out.append(_viol("next_raises", "reschedule", f"{ctx}: {exc!r}"))
        return
    stats["reschedule_evals"] += 1
    snx = succ.delay.next_execution_time if succ is not params else nxt
    if snx is None or snx != nxt:
        out.append(_viol("next_not_on_grid", "reschedule", ctx + f": the rescheduled copy carries next_execution_time={snx}, compute_next_execution_time of the message gave {nxt}"))
    elif not any((snx - b) % p == timedelta(0) for b in bases):
        out.append(_viol("next_not_on_grid", "reschedule", ctx + f" successor={snx}"))
    rel = "before" if now < ts else "at" if now == ts else "after"
    ongrid = (now - ts) % p == timedelta(0)
    if now < ts:
        stats["now_before_base"] += 1
    if ongrid:
        stats["now_on_grid"] += 1
    fps.add(f"next/{rel}/{'grid' if ongrid else 'off'}/{'us' if p.microseconds else 's'}/{len(str(int(p.total_seconds())))}/{'du' if du else '-'}")


def check_wire(rnd, n, out, stats, fps):
    """A scheduled time T handed to the brokers' own conversion code under a pinned clock: RabbitMQ gets the whole remaining
    time as its relative expiration (milliseconds, never more than the remaining time, at most 1 ms less), Redis a score that
    is the first whole second not before T."""
    import asyncio
    import math

    from repid.connections.rabbitmq.message_broker import RabbitMessageBroker
    from repid.connections.redis import utils as rutils
    from repid.data._key import RoutingKey
    from repid.data._parameters import DelayProperties, Parameters
    from rv.sim.clock import pin

    class Chan:
        is_closed = False

        def __init__(self):
            self.published = []

        async def basic_publish(self, body, *, routing_key, properties, **kw):
            from aiormq.abc import Basic as _B  # noqa: F401
            import pamqp.commands as _c

            self.published.append((routing_key, properties))
            return _c.Basic.Ack()

    async def publish(broker, key, params):
        await broker.enqueue(key, "p", params)

    for _ in range(n):
        now = _rand_dt(rnd, 2000, 2100)
        off = rnd.choice([timedelta(microseconds=rnd.randint(1, 999)), timedelta(seconds=rnd.uniform(0.001, 5)), timedelta(seconds=rnd.randint(1, 86400), microseconds=rnd.randint(0, 999999)),
                          timedelta(days=rnd.randint(1, 45), seconds=rnd.randint(0, 86399), microseconds=rnd.randint(0, 999999)), timedelta(days=1), timedelta(days=7), -timedelta(seconds=rnd.randint(0, 100))])
        T = now + off
        params = Parameters(timestamp=now, delay=DelayProperties(next_execution_time=T))
        pin(now)
        stats["evaluations"] += 1
        stats["wire_conversions"] += 1
        # RabbitMQ
        broker = RabbitMessageBroker("amqp://unused")
        ch = Chan()
        broker._RabbitMessageBroker__channel = ch
        try:
            asyncio.run(publish(broker, RoutingKey(topic="t", queue="q", id_="m"), params))
        except Exception as exc:  # noqa: BLE001
            out.append(_viol("next_raises", "rabbit-expiration", f"now={now} T={T}: enqueue raised {exc!r}"))
            continue
        rk, props = ch.published[-1]
        remaining_ms = (T - now) / timedelta(milliseconds=1)
        if remaining_ms <= 0 or int(remaining_ms) == 0:
            if rk != "q" and not (props.expiration in (None, "0")):
                out.append(_viol("next_not_on_grid", "rabbit-expiration", f"now={now} T={T} (not ahead by a whole millisecond): published to {rk} with expiration {props.expiration}"))
        else:
            exp = int(props.expiration) if props.expiration is not None else None
            if rk != "q:delayed" or exp is None or not (remaining_ms - 1 < exp <= remaining_ms):
                out.append(_viol("next_not_on_grid", "rabbit-expiration", f"now={now} T={T}: {remaining_ms:.3f} ms remain, published to {rk} with expiration {props.expiration}"))
        # Redis
        score = rutils.wait_timestamp(params)
        want = math.ceil(T.timestamp()) if True else None
        if score is None or score != want:
            out.append(_viol("next_not_on_grid", "redis-score", f"T={T}: score {score}, expected the first whole second not before T = {want}"))
        fps.add(f"wire/{'past' if off < timedelta(0) else 'sub-ms' if off < timedelta(milliseconds=1) else 'sub-day' if off < timedelta(days=1) else 'days'}")


def check_overdue(ts, ttl, now, out, stats, fps):
    from repid.data._buckets import ArgsBucket, ResultBucket
    from repid.data._parameters import Parameters
    from rv.sim.clock import pin

    expected = ttl is not None and now > ts + ttl
    from repid.data._parameters import DelayProperties, RetriesProperties

    # (what else a message carries - a scheduled time behind or ahead of its timestamp, a period, attempts made - has no say)
    shift = timedelta(seconds=((ts.microsecond % 7) - 2) * 37.5)
    objs = {
        "Parameters": Parameters(timestamp=ts, ttl=ttl),
        "Parameters+next": Parameters(timestamp=ts, ttl=ttl, delay=DelayProperties(next_execution_time=ts + shift + (ttl or timedelta(0)) / 2)),
        "Parameters+next_far": Parameters(timestamp=ts, ttl=ttl, delay=DelayProperties(defer_by=timedelta(hours=1), next_execution_time=now + timedelta(seconds=1))),
        "Parameters+until": Parameters(timestamp=ts, ttl=ttl, delay=DelayProperties(delay_until=now - timedelta(seconds=3)), retries=RetriesProperties(max_amount=3, already_tried=2)),
        "Parameters.decoded": Parameters.decode(Parameters(timestamp=ts, ttl=ttl, delay=DelayProperties(next_execution_time=now)).encode()),
        "ArgsBucket": ArgsBucket(data="x", timestamp=ts, ttl=ttl),
        "ResultBucket": ResultBucket(data="x", started_when=1, finished_when=2, timestamp=ts, ttl=ttl),
    }
    pin(now)
    for name, o in objs.items():
        stats["evaluations"] += 1
        stats["overdue_evals"] += 1
        got = o.is_overdue
        if got != expected:
            out.append(_viol("overdue_predicate", name, f"{name}: ts={ts} ttl={ttl} now={now}: is_overdue={got}, expected {expected}"))
    cls = "none" if ttl is None else ("at" if now == ts + ttl else "after" if now > ts + ttl else "before")
    fps.add(f"overdue/{cls}/{'us' if (ttl and ttl.microseconds) else 's'}")


class _FakeConn:
    args_bucket_broker = None
    results_bucket_broker = None

    class message_broker:  # noqa: N801
        pass


def check_job_overdue(ts, ttl, now, out, stats, fps):
    """Job.is_overdue: the Job takes its timestamp from datetime.now() at construction."""
    from repid.connection import Connection
    from repid.connections import InMemoryMessageBroker
    from repid.job import Job
    from rv.sim.clock import pin

    pin(ts)
    conn = Connection(InMemoryMessageBroker())
    if ttl is not None and ttl.total_seconds() < 1:
        # (the constructor refuses less than a second; the attribute is public)
        job = Job("j", _connection=conn)
        job.ttl = ttl
    else:
        job = Job("j", ttl=ttl, _connection=conn)
    pin(now)
    stats["evaluations"] += 1
    stats["overdue_evals"] += 1
    expected = ttl is not None and now > ts + ttl
    got = job.is_overdue
    if job.timestamp != ts:
        out.append(_viol("overdue_predicate", "Job.timestamp", f"Job.timestamp={job.timestamp} but clock was {ts}"))
    if got != expected:
        out.append(_viol("overdue_predicate", "Job", f"Job: ts={ts} ttl={ttl} now={now}: is_overdue={got}, expected {expected}"))


async def idle_consumer_scenario(loop, case, out, stats, fps):
    import asyncio
    """The expiry rule as a consumer applies it: a message whose timestamp + ttl is already over when it reaches a queue
    whose consumer has been waiting for a while (its own idea of "now" may be old) is not handed out; one with time left is."""
    from repid.message import MessageCategory
    from rv.rigs import Rig, key_of

    rnd = random.Random(case["seed"])
    for kind in ("mem", "redis", "rabbit"):
        for waited in (0.35, 0.8, 1.7):
            for over in (0.05, 0.3, -5.0):  # expired that long ago / (negative) that much time left (more than any polling delay)
                rig = Rig(kind, loop, latency=None, seed=case["seed"])
                try:
                    conn = rig.make_connection("p1")
                    await conn.connect()
                    mb = conn.message_broker
                    await mb.queue_declare("q")
                    P = mb.PARAMETERS_CLASS
                    cons = mb.get_consumer("q", None, None, MessageCategory.NORMAL)
                    await cons.start()
                    waiter = loop.create_task(cons.consume())
                    await asyncio.sleep(waited)
                    ttl = timedelta(seconds=rnd.choice([2, 90, 3600]))
                    ts = datetime.now() - ttl - timedelta(seconds=over)
                    await mb.enqueue(key_of(conn, "m1", "t", "q"), "p", P(timestamp=ts, ttl=ttl))
                    got = None
                    try:
                        key, _pl, _pr = await asyncio.wait_for(waiter, 3.0 if kind == "redis" else 1.5)
                        got = key.id_
                        await mb.ack(key)
                    except asyncio.TimeoutError:
                        pass
                    await cons.finish()
                    stats["evaluations"] += 1
                    stats["overdue_evals"] += 1
                    stats["expiry_probes_at_a_waiting_consumer"] += 1
                    fps.add(f"idle_consumer/{kind}/{waited}/{'expired' if over > 0 else 'alive'}")
                    if over > 0 and got is not None:
                        out.append(_viol("overdue_predicate", f"consumer/{kind}/handed-out-after-expiry", f"a message with timestamp + ttl {over}s in the past was enqueued while the consumer had been waiting for {waited}s: "
                                                                                                       f"it was handed out (now > timestamp + ttl held when it arrived)"))
                    if over < 0 and got is None:
                        out.append(_viol("overdue_predicate", f"consumer/{kind}/withheld-before-expiry", f"a message with {-over}s left to live, enqueued while the consumer had been waiting for {waited}s, was not handed out; "
                                                                                                     f"state {rig.snapshot().get('m1')}"))
                    await conn.disconnect()
                finally:
                    rig.close()


async def bucket_store_scenario(loop, case, out, stats, fps):
    """Buckets in a store that expires keys itself (Redis): what the broker still serves is what `now > timestamp + ttl`
    says, for buckets stored long after their timestamp as well (whole-second server clock: 1 s tolerance)."""
    import asyncio

    from rv.wl import World

    rnd = random.Random(case["seed"])
    w = World(loop, "mem", converter="basic", seed=case["seed"], bucket_kind="redis")
    try:
        await w.open()
        for broker, label in ((w.conn.args_bucket_broker, "args"), (w.conn.results_bucket_broker, "result")):
            B = broker.BUCKET_CLASS
            plans = []
            now = datetime.now()
            for i in range(6):
                ttl = timedelta(seconds=rnd.choice([30, 600, 3600, 90000]))
                age = rnd.choice([timedelta(0), ttl * 0.5, ttl * 0.9, ttl - timedelta(seconds=5), ttl + timedelta(seconds=5), ttl * 3])
                kw = dict(data="x", timestamp=now - age, ttl=ttl)
                if label == "result":
                    kw.update(started_when=1, finished_when=2)
                b = B(**kw)
                id_ = f"{label}-{i}"
                await broker.store_bucket(id_, b)
                plans.append((id_, b))
            for step in (0.0, 6.0, 40.0, 700.0, 4000.0):
                if step:
                    await w.rig.quiesce_wire()
                    loop.jump(step)
                    await asyncio.sleep(0.01)
                t = datetime.now()
                for id_, b in plans:
                    got = await broker.get_bucket(id_)
                    exp = b.timestamp + b.ttl
                    stats["evaluations"] += 1
                    stats["overdue_evals"] += 1
                    stats["stored_bucket_probes"] += 1
                    cls = "long-expired" if t > exp + timedelta(seconds=1) else ("live" if t < exp - timedelta(seconds=1) else "edge")
                    fps.add(f"bucket_store/{label}/{cls}/{'aged' if b.timestamp < now else 'fresh'}")
                    if got is not None and t > exp + timedelta(seconds=1):
                        out.append(_viol("overdue_predicate", f"RedisBucketBroker/{label}/served-after-expiry", f"bucket timestamp={b.timestamp} ttl={b.ttl} (stored at {now}) is still served at {t}, {t - exp} after timestamp + ttl"))
                    if got is None and t < exp - timedelta(seconds=1):
                        out.append(_viol("overdue_predicate", f"RedisBucketBroker/{label}/dropped-before-expiry", f"bucket timestamp={b.timestamp} ttl={b.ttl} is gone at {t}, {exp - t} before timestamp + ttl"))
    finally:
        await w.close()


def run_case(case):
    import collections

    stats = collections.Counter()
    out = []
    fps = set()
    kind = case["kind"]
    if case.get("tz"):
        import os
        import time as _time

        old_tz = os.environ.get("TZ")
        os.environ["TZ"] = case["tz"]
        _time.tzset()
        try:
            r = run_case({k: v for k, v in case.items() if k != "tz"})
        finally:
            if old_tz is None:
                os.environ.pop("TZ", None)
            else:
                os.environ["TZ"] = old_tz
            _time.tzset()
        r["stats"]["timezone_offset_cases"] = 1
        r["fps"] = [f + "/tz" for f in r.get("fps", [])]
        return r
    if kind == "backoff":
        rnd = random.Random(case["seed"])
        for _ in range(max(1, case["n"] // 40)):
            mx = rnd.choice([1, 10, 86400, 10**9, rnd.randint(1, 10**9)])
            mn = rnd.choice([1, mx, rnd.randint(1, mx)])
            mult = rnd.choice([1, 5, rnd.randint(1, 10**6), 10**9])
            mexp = rnd.choice([1, 15, 64, 1024, rnd.randint(1, 20000)])
            ns = sorted({1, 2, 3, mexp - 1 if mexp > 1 else 1, mexp, mexp + 1, 10**6, 2**31, 10**9}
                        | {rnd.randint(1, 100) for _ in range(15)} | {rnd.randint(1, 10**6) for _ in range(10)})
            check_backoff((mn, mx, mult, mexp), ns, out, stats, fps)
    elif kind == "idle_consumer":
        from rv.sim import loop as vl

        res = vl.run(lambda loop: idle_consumer_scenario(loop, case, out, stats, fps), max_steps=4_000_000, seed=case["seed"])
        if res.exc is not None:
            out.append(_viol("next_raises", "idle_consumer", f"{type(res.exc).__name__}: {res.exc}"))
    elif kind == "bucket_store":
        from rv.sim import loop as vl

        res = vl.run(lambda loop: bucket_store_scenario(loop, case, out, stats, fps), max_steps=2_000_000, seed=case["seed"])
        if res.exc is not None:
            out.append(_viol("next_raises", "bucket_store", f"{type(res.exc).__name__}: {res.exc}"))
    elif kind == "backoff_grid":
        check_backoff((10, 86400, 5, 15), list(range(1, 4000)), out, stats, fps)
        for mn, mx in [(1, 1), (1, 10**9), (10**9, 10**9), (7, 8)]:
            for mult in (1, 3, 10**9):
                for mexp in (1, 2, 31, 63, 64, 1023, 1024, 1025, 20000):
                    check_backoff((mn, mx, mult, mexp), [1, 2, 30, 31, 32, 62, 63, 64, 65, 1022, 1023, 1024, 1025, 10**5, 10**9], out, stats, fps)
    elif kind == "next":
        rnd = random.Random(case["seed"])
        for _ in range(case["n"]):
            ts = _rand_dt(rnd)
            p = _rand_period(rnd)
            k = rnd.random()
            if k < 0.25:
                now = ts + p * rnd.randint(0, 1000)  # exactly on the grid
            elif k < 0.35:
                now = ts + p * rnd.randint(0, 1000) + rnd.choice([US, -US])
            elif k < 0.5:
                now = ts - timedelta(seconds=rnd.randint(0, 10**6), microseconds=rnd.randint(0, 999999))
            elif k < 0.6:
                now = ts - p * rnd.randint(1, 50)
            else:
                now = ts + timedelta(seconds=rnd.randint(0, 10**8), microseconds=rnd.randint(0, 999999))
            du = None
            d = rnd.random()
            if d < 0.15:
                du = now + rnd.choice([US, timedelta(seconds=1), timedelta(days=30), timedelta(seconds=rnd.randint(1, 10**6))])
            elif d < 0.3:
                du = now - rnd.choice([timedelta(0), US, timedelta(seconds=1), timedelta(seconds=rnd.randint(1, 10**6))])
            if now.year < 1971 or now.year > 2250:
                continue
            sched = None
            if rnd.random() < 0.3:
                sched = now - timedelta(seconds=rnd.randint(0, 10**5), microseconds=rnd.randint(0, 999999))
                stats["with_scheduled_time"] += 1
            check_next(ts, now, p, du, out, stats, fps, sched)
    elif kind == "next_grid":
        ts = datetime(2040, 1, 1, 0, 0, 0)
        for p in (timedelta(seconds=1), timedelta(seconds=1, microseconds=1), timedelta(seconds=2.5), timedelta(seconds=10), timedelta(seconds=3600), timedelta(seconds=10**7)):
            for m in (-3, -1, 0, 1, 2, 7, 1000):
                for eps in (-US, timedelta(0), US, p / 2):
                    now = ts + p * m + eps
                    if not (1971 <= now.year <= 2200):
                        continue  # int64 nanoseconds of the clock shim end in 2262
                    for du in (None, now, now + US, now - US, ts):
                        check_next(ts, now, p, du, out, stats, fps)
    elif kind == "wire":
        check_wire(random.Random(case["seed"]), case["n"], out, stats, fps)
    elif kind == "overdue":
        rnd = random.Random(case["seed"])
        for _ in range(case["n"]):
            ts = _rand_dt(rnd)
            # (a time-to-live of zero - "now or never" - and negative ones are ordinary inputs of the data classes)
            ttl = rnd.choice([None, timedelta(seconds=1), timedelta(seconds=1.5), timedelta(seconds=rnd.randint(1, 10**7), microseconds=rnd.randint(0, 999999)), timedelta(0), timedelta(0), timedelta(microseconds=1), timedelta(seconds=-1), timedelta(microseconds=-1)])
            if ttl is not None and ttl <= timedelta(0):
                stats["overdue_evals_with_a_ttl_of_zero_or_less"] += 1
            if ttl is None:
                now = ts + timedelta(seconds=rnd.randint(-100, 10**8))
            else:
                now = ts + ttl + rnd.choice([-US, timedelta(0), US, timedelta(seconds=-1), timedelta(seconds=1), timedelta(seconds=rnd.randint(-10**6, 10**6))])
            check_overdue(ts, ttl, now, out, stats, fps)
            if rnd.random() < 0.2:
                check_job_overdue(ts, ttl, now, out, stats, fps)
    res = {"fp": None, "fps": sorted(fps), "viol": out[:20], "stats": dict(stats)}
    if kind in ("next_grid", "backoff_grid"):
        res["sample"] = {"kind": kind, "fingerprints": sorted(fps)[:8]}
    return res

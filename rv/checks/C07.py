"""C07 - what the producer enqueued is what the consumer receives.

(i) generated jobs (arguments, names, ids, priorities, every subset of the optional settings, inline and bucket
    transport) are enqueued through Job.enqueue() and consumed back on each broker - on redis/rabbit through the real
    wire encodings - and compared field by field;
(ii) decode(encode(x)) == x for Parameters and its parts and for both bucket classes, over timestamps and durations up
    to 100 years at microsecond precision;
(iii) every name/id the validators accept goes through the brokers' key encodings and back, and distinct routing keys
    never share a server-side name.
"""
from __future__ import annotations

import asyncio
import collections
import dataclasses
import json
import random
import string
from datetime import date, datetime, time, timedelta

LEVEL = "exploration"
RULE = ("seeded generators: recursive JSON, dataclasses, pydantic models, dates/times/durations (<= 100 years, 1 us) as job arguments; names "
        "and ids from the validators' alphabets incl. boundary lengths; all three priorities; every optional job setting toggled "
        "independently; inline vs bucket; mem/redis/rabbit. evaluation = one job round trip (or one encode/decode, or one key) judged; "
        "fingerprint = hash of the wire form (job round trips), (class, field classes) (codec), name shape (keys); trivial = jobs "
        "with no optional setting and no arguments")
ASSUMPTIONS = ["Redis and RabbitMQ are wire-level fakes speaking the real protocols to the real client libraries",
               "argument payloads starting with the reserved bucket marker are excluded (per the statement)",
               "inputs a broker refuses loudly at enqueue are counted under refused_inputs, not judged"]
EVAL_COUNTER = "items_judged"
REQUIRED = ["runs_with_free_text_bucket_ids", "items_judged", "jobs_roundtripped", "bucket_transport", "codec_roundtrips", "keys_checked", "durations_over_10y", "reused_bucket_ids", "slow_argument_store_runs", "job_twins_judged", "flushes_judged", "default_id_retries"]
CASE_TIMEOUT = 150

NAME_FIRST = string.ascii_letters + "_"
NAME_REST = string.ascii_letters + string.digits + "_-"
ID_CHARS = string.ascii_letters + string.digits + "_-"


def gen_cases(tier, seed):
    rnd = random.Random(seed)
    cases = []
    nj = {"quick": 10, "thorough": 140}[tier]
    for kind in ("mem", "redis", "rabbit"):
        for i in range(nj):
            cases.append({"type": "jobs", "kind": kind, "seed": rnd.randrange(10**6), "n": 40})
    for i in range({"quick": 6, "thorough": 120}[tier]):
        cases.append({"type": "codec", "seed": rnd.randrange(10**6), "n": 500})
    for i in range({"quick": 4, "thorough": 40}[tier]):
        cases.append({"type": "keys", "seed": rnd.randrange(10**6), "n": 400})
    cases.append({"type": "collide", "seed": 1})
    cases.append({"type": "flush", "seed": 1})
    for i in range({"quick": 6, "thorough": 30}[tier]):
        cases.append({"type": "jobtwins", "kind": ["mem", "redis", "rabbit"][i % 3], "bucket": ["mem", "redis"][(i // 3) % 2], "seed": rnd.randrange(10**6)})
    for i in range({"quick": 6, "thorough": 60}[tier]):
        cases.append({"type": "reuse", "kind": ["mem", "redis", "rabbit"][i % 3], "seed": 2 * rnd.randrange(10**5) + ((i // 3) % 2 if i >= 3 else 1), "slow": i % 2 == 0})
    return cases


def V(rule, kind, ctx, detail):
    return {"rule": rule, "broker": kind, "context": ctx, "detail": detail}


def rname(rnd, maxlen=40):
    n = rnd.choice([1, 1, 2, 5, 12, maxlen])
    return rnd.choice(NAME_FIRST) + "".join(rnd.choice(NAME_REST) for _ in range(n - 1))


def rid(rnd, maxlen=64):
    n = rnd.choice([1, 2, 8, 32, maxlen])
    return "".join(rnd.choice(ID_CHARS) for _ in range(n))


def rdur(rnd, lo=1.0):
    k = rnd.random()
    if k < 0.3:
        return timedelta(seconds=rnd.choice([1, 2, 60, 3600, 86400]))
    if k < 0.6:
        return timedelta(seconds=rnd.randint(1, 10**6), microseconds=rnd.randint(0, 999999))
    if k < 0.8:
        return timedelta(days=rnd.randint(3650, 36500), seconds=rnd.randint(0, 86399), microseconds=rnd.choice([0, 1, 999999, rnd.randint(0, 999999)]))
    return timedelta(seconds=lo, microseconds=rnd.choice([0, 1, 500000]))


def rdt(rnd):
    return datetime(rnd.randint(1971, 2200), rnd.randint(1, 12), rnd.randint(1, 28), rnd.randint(0, 23), rnd.randint(0, 59), rnd.randint(0, 59), rnd.choice([0, 1, 999999, rnd.randint(0, 999999)]))


def rjson(rnd, depth=0):
    k = rnd.random()
    if depth > 3 or k < 0.35:
        return rnd.choice([0, 1, -1, 2**53, -(2**53), 1.5, -0.0, 1e308, 5e-324, "", "s", "ünïcødé \U0001F600", "a" * rnd.choice([1, 100, 5000]), True, False, None, "__repid_payload_id later in text", '"quoted"\n\t\\'])
    if k < 0.65:
        return [rjson(rnd, depth + 1) for _ in range(rnd.randint(0, 4))]
    return {rnd.choice(["k", "key two", "ü", "__x", "0"]) + str(i): rjson(rnd, depth + 1) for i in range(rnd.randint(0, 4))}


@dataclasses.dataclass
class DC:
    a: int
    b: list
    when: datetime


def rargs(rnd):
    import pydantic

    class PM(pydantic.BaseModel):
        x: int
        d: dict
        t: timedelta

    k = rnd.random()
    if k < 0.15:
        return None
    if k < 0.55:
        v = rjson(rnd)
        return v if isinstance(v, dict) else {"v": v}
    if k < 0.7:
        return DC(rnd.randint(-5, 5), [rjson(rnd, 2)], rdt(rnd))
    if k < 0.8:
        return PM(x=rnd.randint(0, 9), d={"q": rjson(rnd, 2)}, t=rdur(rnd))
    if k < 0.9:
        return {"d": date(2040, 1, 2), "t": time(3, 4, 5, 6), "dt": rdt(rnd), "td": rdur(rnd), "dc": DC(1, [], rdt(rnd))}
    return {"big": "x" * rnd.choice([10**5, 10**6])}


async def jobs_case(loop, case, out, stats, fps, samples, refused):
    from repid import Job
    from repid._utils import _ArgsBucketInMessageId
    from repid.data.priorities import PrioritiesT
    from repid.message import MessageCategory
    from rv.rigs import Rig

    kind = case["kind"]
    rnd = random.Random(case["seed"])
    rig = Rig(kind, loop, latency=None, seed=case["seed"], record=False)
    rig.server and setattr(rig.server, "keep_log", False)
    try:
        conn = rig.make_connection("p1", bucket_kind=rnd.choice([None, "mem"]))
        await conn.connect()
        mb = conn.message_broker
        queues = [rname(rnd, 30) for _ in range(3)]
        for q in queues:
            await mb.queue_declare(q)
        sent = {}
        used_args_ids = set()
        for i in range(case["n"]):
            kw = {}
            if rnd.random() < 0.7:
                kw["priority"] = rnd.choice(list(PrioritiesT))
            if rnd.random() < 0.7:
                kw["id_"] = rid(rnd)
            if rnd.random() < 0.3:
                kw["deferred_until"] = rdt(rnd) if rnd.random() < 0.5 else datetime.now() - timedelta(seconds=rnd.randint(1, 10**6), microseconds=rnd.randint(0, 999999))
            if rnd.random() < 0.3:
                kw["deferred_by"] = rdur(rnd)
            if rnd.random() < 0.5:
                kw["retries"] = rnd.choice([0, 1, 7, 10**6])
            if rnd.random() < 0.5:
                kw["timeout"] = rdur(rnd)
            if rnd.random() < 0.4:
                kw["ttl"] = max(rdur(rnd), timedelta(hours=1))  # not expired while we look
            if rnd.random() < 0.3:
                kw["args_id"] = rid(rnd)
                if kw["args_id"] in used_args_ids:
                    del kw["args_id"]
                else:
                    used_args_ids.add(kw["args_id"])
            if rnd.random() < 0.3:
                kw["args_ttl"] = max(rdur(rnd), timedelta(hours=1))
            if rnd.random() < 0.6:
                kw["use_args_bucketer"] = rnd.random() < 0.5
            if rnd.random() < 0.3:
                kw["result_id"] = rid(rnd)
            if rnd.random() < 0.3:
                kw["result_ttl"] = rnd.choice([None, rdur(rnd)])
            if rnd.random() < 0.6:
                kw["store_result"] = rnd.random() < 0.5
            args = rargs(rnd)
            # delayed jobs are consumed through the DELAYED category right away; keep their due time in the future
            if "deferred_until" in kw and kw["deferred_until"] <= datetime.now():
                pass
            name, queue = rname(rnd), rnd.choice(queues)
            try:
                job = Job(name, queue=queue, args=args, _connection=conn, **kw)
            except Exception as exc:  # noqa: BLE001
                refused[f"Job(): {type(exc).__name__}"] += 1
                continue
            if job.args is not None and job.args.lstrip().startswith('{"__repid_payload_id"') and not job.use_args_bucketer:
                refused["reserved marker payload"] += 1
                continue
            if kw.get("id_") in {k.id_ for k, *_ in sent.values()}:
                continue
            try:
                key, ret_args, params = await job.enqueue()
            except Exception as exc:  # noqa: BLE001
                refused[f"enqueue: {type(exc).__name__}: {str(exc)[:60]}"] += 1
                continue
            sent[key.id_] = (key, ret_args, params, job, bool(kw) or args is not None)
        # consume everything back from every category
        got = {}
        for q in queues:
            for cat in (MessageCategory.NORMAL, MessageCategory.DELAYED, MessageCategory.NORMAL):  # a short delay may run out in between
                cons = mb.get_consumer(q, None, None, cat)
                await cons.start()
                idle = {"mem": 0.05, "redis": 1.5, "rabbit": 0.4}[kind]
                while True:
                    try:
                        k2, payload, p2 = await asyncio.wait_for(cons.consume(), idle)
                    except asyncio.TimeoutError:
                        break
                    got.setdefault(k2.id_, []).append((k2, payload, p2, cat.value))
                    await mb.ack(k2)
                await cons.finish()
                await asyncio.sleep(0.12 if kind == "rabbit" else 0)
        from repid._processor import _Processor

        proc = _Processor(conn)
        for id_, (key, ret_args, params, job, nontrivial) in sent.items():
            stats["items_judged"] += 1
            stats["jobs_roundtripped"] += 1
            g = got.get(id_, [])
            if len(g) != 1:
                out.append(V("field_mismatch", kind, "delivery-count", f"job {id_} ({job.name}@{job.queue.name}) came back {len(g)} times"))
                continue
            k2, payload, p2, cat = g[0]
            for f in ("id_", "topic", "queue", "priority"):
                if getattr(k2, f) != getattr(key, f):
                    out.append(V("field_mismatch", kind, f"key.{f}", f"{id_}: enqueued {f}={getattr(key, f)!r}, received {getattr(k2, f)!r}"))
            if p2 != params:
                diff = {f.name: (getattr(params, f.name), getattr(p2, f.name)) for f in dataclasses.fields(params) if getattr(params, f.name) != getattr(p2, f.name)}
                out.append(V("field_mismatch", kind, "parameters." + "+".join(sorted(diff)), f"{id_}: (enqueued, received) {diff}"))
            bucketed = job.use_args_bucketer and job.args is not None
            if bucketed:
                stats["bucket_transport"] += 1
                want_wire = _ArgsBucketInMessageId.construct(job.args_id)
                if payload != want_wire:
                    out.append(V("field_mismatch", kind, "payload/marker", f"{id_}: wire payload {payload[:80]!r}, expected marker {want_wire!r}"))
                real = await proc.get_payload(payload)
                if real != ret_args:
                    out.append(V("field_mismatch", kind, "payload/bucket", f"{id_}: bucket payload {real[:80]!r} != serialized arguments {ret_args[:80]!r}"))
            elif job.args_id_set and job.args is None:
                pass  # pointer to a bucket filled by somebody else
            else:
                want = ret_args if not job.args_id_set else _ArgsBucketInMessageId.construct(job.args_id)
                if payload != want:
                    out.append(V("field_mismatch", kind, "payload/inline", f"{id_}: received payload {payload[:80]!r} != enqueued {want[:80]!r}"))
                elif not job.args_id_set:
                    # what the worker would hand to the converter
                    try:
                        real = await proc.get_payload(payload)
                    except Exception as exc:  # noqa: BLE001
                        real = f"<get_payload raised {exc!r}>"
                    if real != ret_args:
                        out.append(V("field_mismatch", kind, "payload/worker-view", f"{id_}: inline payload {payload[:80]!r} reaches the converter as {str(real)[:80]!r}"))
            if nontrivial:
                import hashlib

                fps.add(hashlib.sha1((kind + payload[:200] + params.encode()).encode()).hexdigest()[:16])
            if len(samples) < 1 and job.args is not None and len(payload) < 300:
                samples.append({"broker": kind, "key": [k2.id_, k2.topic, k2.queue, k2.priority], "payload": payload[:200], "parameters": p2.encode()[:300]})
        for id_ in got:
            if id_ not in sent:
                out.append(V("field_mismatch", kind, "ghost", f"received unknown id {id_}"))
        await conn.disconnect()
        stats["unknown_server_commands"] += rig.unknown_commands()
    finally:
        rig.close()


def codec_case(case, out, stats, fps):
    from repid.data._buckets import ArgsBucket, ResultBucket
    from repid.data._parameters import DelayProperties, Parameters, ResultProperties, RetriesProperties

    rnd = random.Random(case["seed"])
    for _ in range(case["n"]):
        big = rnd.random() < 0.3
        dur = lambda: (timedelta(days=rnd.randint(3650, 36500), seconds=rnd.randint(0, 86399), microseconds=rnd.randint(0, 999999)) if big else rdur(rnd))  # noqa: E731
        if big:
            stats["durations_over_10y"] += 1
        opt = lambda f: (f() if rnd.random() < 0.6 else None)  # noqa: E731
        objs = [
            RetriesProperties(max_amount=rnd.choice([0, 1, 10**9]), already_tried=rnd.choice([0, 3])),
            ResultProperties(id_=rid(rnd), ttl=opt(dur)),
            DelayProperties(delay_until=opt(lambda: rdt(rnd)), defer_by=opt(dur), cron=rnd.choice([None, "5 4 * * *"]), next_execution_time=opt(lambda: rdt(rnd))),
        ]
        objs.append(Parameters(execution_timeout=dur(), result=rnd.choice([None, objs[1]]), retries=objs[0], delay=objs[2], timestamp=rdt(rnd), ttl=opt(dur)))
        objs.append(ArgsBucket(data=json.dumps(rjson(rnd)), timestamp=rdt(rnd), ttl=opt(dur)))
        objs.append(ResultBucket(data=json.dumps(rjson(rnd)), started_when=rnd.randint(0, 2**62), finished_when=rnd.randint(0, 2**62), success=rnd.random() < 0.5,
                                 exception=rnd.choice([None, "ValueError"]), timestamp=rdt(rnd), ttl=opt(dur)))
        for o in objs:
            stats["items_judged"] += 1
            stats["codec_roundtrips"] += 1
            cls = type(o)
            try:
                enc = o.encode()
                back = cls.decode(enc)
            except Exception as exc:  # noqa: BLE001
                out.append(V("roundtrip", "-", f"{cls.__name__}/raises", f"{o!r}: {exc!r}"))
                continue
            fps.add(f"codec/{cls.__name__}/{big}/" + ",".join(f.name for f in dataclasses.fields(o) if getattr(o, f.name) is None))
            if back != o:
                diff = {f.name: (getattr(o, f.name), getattr(back, f.name)) for f in dataclasses.fields(o) if getattr(o, f.name) != getattr(back, f.name)}
                out.append(V("roundtrip", "-", f"{cls.__name__}." + "+".join(sorted(diff)), f"decode(encode(x)) != x: (x, decoded) {diff}"))
            elif any(type(getattr(o, f.name)) is not type(getattr(back, f.name)) for f in dataclasses.fields(o)):
                diff = {f.name: (type(getattr(o, f.name)).__name__, type(getattr(back, f.name)).__name__) for f in dataclasses.fields(o) if type(getattr(o, f.name)) is not type(getattr(back, f.name))}
                out.append(V("roundtrip", "-", f"{cls.__name__}/type." + "+".join(sorted(diff)), f"field types changed: {diff}"))


def keys_case(case, out, stats, fps):
    from repid.connections.rabbitmq.utils import qnc as rqnc
    from repid.connections.redis import utils as ru
    from repid.data._key import RoutingKey

    rnd = random.Random(case["seed"])
    seen_m, seen_q, seen_rq = {}, {}, {}
    for _ in range(case["n"]):
        key = RoutingKey(topic=rname(rnd), queue=rname(rnd), priority=rnd.choice([0, 5, 9]), id_=rid(rnd))
        tup = (key.id_, key.topic, key.queue, key.priority)
        stats["items_judged"] += 1
        stats["keys_checked"] += 1
        fps.add(f"key/{len(key.topic)}/{len(key.queue)}/{len(key.id_)}/{key.priority}/{key.topic[0] in '_'}/{'-' in key.id_}")
        full, short = ru.mnc(key), ru.mnc(key, short=True)
        try:
            if ru.parse_message_name(full) != tup:
                out.append(V("key_parse", "redis", "parse_message_name", f"{tup} -> {full!r} -> {ru.parse_message_name(full)}"))
            if ru.parse_short_message_name(short) != (key.topic, key.id_):
                out.append(V("key_parse", "redis", "parse_short_message_name", f"{tup} -> {short!r} -> {ru.parse_short_message_name(short)}"))
            for kwq in ({}, {"delayed": True}, {"dead": True}):
                qn = ru.qnc(key.queue, key.priority, **kwq)
                if ru.full_message_name_from_short(short, qn) != full:
                    out.append(V("key_parse", "redis", "full_message_name_from_short", f"{short!r} + {qn!r} -> {ru.full_message_name_from_short(short, qn)!r} != {full!r}"))
                marker = ru.get_queue_marker(qn)
                if marker != ("dead" if kwq.get("dead") else "d" if kwq.get("delayed") else "n"):
                    out.append(V("key_parse", "redis", "get_queue_marker", f"{qn!r} -> {marker!r}"))
                if qn in seen_q and seen_q[qn] != (key.queue, key.priority, tuple(kwq)):
                    out.append(V("key_collision", "redis", "qnc", f"{seen_q[qn]} and {(key.queue, key.priority, tuple(kwq))} share {qn!r}"))
                seen_q[qn] = (key.queue, key.priority, tuple(kwq))
        except Exception as exc:  # noqa: BLE001
            out.append(V("key_parse", "redis", "raises", f"{tup}: {exc!r}"))
        if full in seen_m and seen_m[full] != tup:
            out.append(V("key_collision", "redis", "mnc", f"{seen_m[full]} and {tup} share {full!r}"))
        seen_m[full] = tup
        for kwq in ({}, {"delayed": True}, {"dead": True}):
            qn = rqnc(key.queue, **kwq)
            if qn in seen_rq and seen_rq[qn] != (key.queue, tuple(kwq)):
                out.append(V("key_collision", "rabbit", "qnc", f"{seen_rq[qn]} and {(key.queue, tuple(kwq))} share {qn!r}"))
            seen_rq[qn] = (key.queue, tuple(kwq))


async def collide_case(loop, out, stats, fps):
    """Two distinct routing keys that differ only in queue / priority (same topic and id): handling one must not
    disturb the other (server-side names must not be shared)."""
    from repid.message import MessageCategory
    from rv.rigs import Rig, key_of

    for kind in ("mem", "redis", "rabbit"):
        for variant in ("queue", "priority", "topic"):
            rig = Rig(kind, loop, latency=None)
            try:
                conn = rig.make_connection("p1")
                await conn.connect()
                mb = conn.message_broker
                for q in ("qa", "qb"):
                    await mb.queue_declare(q)
                P = mb.PARAMETERS_CLASS
                k1 = key_of(conn, "same", "t", "qa", 5)
                k2 = {"queue": key_of(conn, "same", "t", "qb", 5), "priority": key_of(conn, "same", "t", "qa", 9), "topic": key_of(conn, "same", "t2", "qa", 5)}[variant]
                await mb.enqueue(k1, "one", P())
                await mb.enqueue(k2, "two", P())
                c1 = mb.get_consumer(k1.queue, None, None, MessageCategory.NORMAL)
                c2 = mb.get_consumer(k2.queue, None, None, MessageCategory.NORMAL) if variant == "queue" else c1
                await c1.start()
                if c2 is not c1:
                    await c2.start()
                a = await asyncio.wait_for(c1.consume(), 5)
                b = await asyncio.wait_for(c2.consume(), 5)
                stats["items_judged"] += 1
                stats["keys_checked"] += 1
                fps.add(f"collide/{kind}/{variant}")
                if {a[1], b[1]} != {"one", "two"}:
                    out.append(V("key_collision", kind, f"same-id/{variant}", f"payloads received {a[1]!r}, {b[1]!r}"))
                # finish the first one; the second must still be in flight
                await mb.ack(a[0])
                await asyncio.sleep(0.05)
                held = None
                if kind == "redis":
                    held = len(rig.server.d.get(b"processing", {}))
                elif kind == "mem":
                    held = sum(len(q.processing) for q in mb.queues.values())
                else:
                    held = sum(len(ch.unacked) for c in rig.server.conns for ch in c.channels.values())
                if held != 1:
                    out.append(V("key_collision", kind, f"in-flight-mark/{variant}", f"two messages with id 'same' (differing in {variant}) were both in flight; after acknowledging one, {held} are marked in flight (expected 1)"))
                # ... and it is the OTHER one that is still in flight, not the one just acknowledged
                still = None
                if kind == "mem":
                    still = sorted(m.payload for q in mb.queues.values() for m in q.processing)
                elif kind == "rabbit":
                    import json as _json

                    still = sorted(_json.loads(m.body)["payload"] for c in rig.server.conns for ch in c.channels.values() for (_qn, m, _ct) in ch.unacked.values())
                if still is not None and held == 1 and still != [b[1]]:
                    out.append(V("key_collision", kind, f"wrong-one-settled/{variant}", f"two messages with id 'same' (differing in {variant}) in flight; acknowledging {a[1]!r} settled {b[1]!r}: still in flight {still}"))
                await mb.ack(b[0])
                await asyncio.sleep(0.05)
                if kind == "mem":
                    left = sum(len(q.processing) for q in mb.queues.values())
                elif kind == "rabbit":
                    left = sum(len(ch.unacked) for c in rig.server.conns for ch in c.channels.values())
                else:
                    left = len(rig.server.d.get(b"processing", {}))
                if left:
                    out.append(V("key_collision", kind, f"never-settled/{variant}", f"both messages with id 'same' (differing in {variant}) were acknowledged, {left} is still in flight"))
                # the same keys are used again (a nightly job keeps its id): the new messages carry the new content
                await mb.enqueue(k1, "one-again", P(retries=mb.PARAMETERS_CLASS().retries.__class__(max_amount=4)))
                await mb.enqueue(k2, "two-again", P(retries=mb.PARAMETERS_CLASS().retries.__class__(max_amount=5)))
                try:
                    a2 = await asyncio.wait_for(c1.consume(), 5)
                    b2 = await asyncio.wait_for(c2.consume(), 5)
                except asyncio.TimeoutError:
                    a2 = b2 = None
                stats["reused_keys_after_twin_acks"] += 1
                if a2 is None or {(a2[1], a2[2].retries.max_amount), (b2[1], b2[2].retries.max_amount)} != {("one-again", 4), ("two-again", 5)}:
                    out.append(V("field_mismatch", kind, f"payload/reused-key-after-twin/{variant}", f"keys of two acknowledged messages with id 'same' (differing in {variant}) enqueued again with new content: received "
                                                                                                        f"{None if a2 is None else [(a2[1], a2[2].retries.max_amount), (b2[1], b2[2].retries.max_amount)]}, expected one-again/4 and two-again/5"))
                if a2 is not None:
                    await mb.ack(a2[0])
                    await mb.ack(b2[0])
                await c1.finish()
                if c2 is not c1:
                    await c2.finish()
                await conn.disconnect()
            finally:
                rig.close()


async def flush_case(loop, out, stats, fps):
    """Queue names that are prefixes / near-misses of one another: flushing or deleting one queue through the public Queue
    API empties exactly that queue (waiting, delayed and dead-lettered messages) and leaves the others as they were."""
    from repid import Queue
    from repid.data._parameters import DelayProperties
    from rv.rigs import Rig, key_of

    names = ["qa", "qa2", "q", "qa-x", "qa_x", "Qa"]
    for kind in ("mem", "redis", "rabbit"):
        for op in ("flush", "delete"):
            for target in ("qa", "q"):
                rig = Rig(kind, loop, latency=None)
                try:
                    conn = rig.make_connection("p1")
                    await conn.connect()
                    mb = conn.message_broker
                    P = mb.PARAMETERS_CLASS
                    for q in names:
                        await mb.queue_declare(q)
                        await mb.enqueue(key_of(conn, f"{q}_w", "t", q, 5), "w", P())
                        await mb.enqueue(key_of(conn, f"{q}_h", "t", q, 9), "h", P())
                        await mb.enqueue(key_of(conn, f"{q}_d", "t", q, 5), "d", P(delay=DelayProperties(next_execution_time=datetime.now() + timedelta(hours=2))))
                    await asyncio.sleep(0.05)
                    before = {i: pl for i, pl in rig.snapshot().items()}
                    await getattr(Queue(target, _connection=conn), op)()
                    await asyncio.sleep(0.05)
                    after = rig.snapshot()
                    stats["items_judged"] += 1
                    stats["flushes_judged"] += 1
                    fps.add(f"flush/{kind}/{op}/{target}")
                    for q in names:
                        for suffix in ("w", "h", "d"):
                            id_ = f"{q}_{suffix}"
                            if q == target:
                                if after.get(id_):
                                    out.append(V("key_collision", kind, f"{op}/not-emptied", f"Queue({target!r}).{op}(): {id_} is still at {after.get(id_)}"))
                            elif after.get(id_) != before.get(id_):
                                out.append(V("key_collision", kind, f"{op}/other-queue-touched", f"Queue({target!r}).{op}() changed {id_} of queue {q!r}: {before.get(id_)} -> {after.get(id_)}"))
                    await conn.disconnect()
                    stats["unknown_server_commands"] += rig.unknown_commands()
                finally:
                    rig.close()


async def jobtwins_case(loop, case, out, stats, fps):
    """Jobs that share a name and/or an id but are different messages (other queue, priority or name), with their arguments
    travelling through the argument bucket under the default bucket ids: each consumer-side payload resolves to its own job's
    arguments, whatever was enqueued in between."""
    from repid import Job
    from repid._processor import _Processor
    from repid.data.priorities import PrioritiesT
    from repid.message import MessageCategory
    from rv.rigs import Rig

    kind = case["kind"]
    rnd = random.Random(case["seed"])
    rig = Rig(kind, loop, latency=None, seed=case["seed"], record=False)
    try:
        conn = rig.make_connection("p1", bucket_kind=case["bucket"])
        await conn.connect()
        mb = conn.message_broker
        for q in ("qa", "qb"):
            await mb.queue_declare(q)
        base_id = rid(rnd, 32)
        table = [("sync", "qa", PrioritiesT.MEDIUM, base_id), ("sync", "qb", PrioritiesT.MEDIUM, base_id), ("sync", "qa", PrioritiesT.HIGH, base_id),
                 ("sync2", "qa", PrioritiesT.MEDIUM, base_id), ("sync", "qb", PrioritiesT.LOW, base_id), ("sync", "qa", PrioritiesT.MEDIUM, base_id + "x")]
        rnd.shuffle(table)
        sent = {}
        for n, (name, q, prio, id_) in enumerate(table):
            job = Job(name, queue=q, priority=prio, id_=id_, args={"who": [name, q, prio.value, id_], "n": n}, use_args_bucketer=True, _connection=conn)
            key, ret_args, _params = await job.enqueue()
            sent[(key.topic, key.queue, key.priority, key.id_)] = ret_args
        proc = _Processor(conn)
        got = {}
        for q in ("qa", "qb"):
            cons = mb.get_consumer(q, None, None, MessageCategory.NORMAL)
            await cons.start()
            idle = {"mem": 0.05, "redis": 1.5, "rabbit": 0.4}[kind]
            while True:
                try:
                    k2, payload, _p2 = await asyncio.wait_for(cons.consume(), idle)
                except asyncio.TimeoutError:
                    break
                # the argument bucket is read while the other twins are still in flight, as concurrent executions would
                got.setdefault((k2.topic, k2.queue, k2.priority, k2.id_), []).append((k2, await proc.get_payload(payload)))
            for ks in list(got.values()):
                for k2, _ in ks:
                    if k2.queue == q:
                        await mb.ack(k2)
            await cons.finish()
        for k, want in sent.items():
            stats["items_judged"] += 1
            stats["job_twins_judged"] += 1
            g = got.get(k, [])
            if len(g) != 1:
                out.append(V("field_mismatch", kind, "twins/delivery-count", f"job {k} came back {len(g)} times"))
            elif g[0][1] != want:
                out.append(V("key_collision", kind, "twins/arguments-of-another-job", f"message {k} was enqueued with arguments {want!r}; its consumer-side payload resolves to {str(g[0][1])[:120]!r}"))
        fps.add(f"jobtwins/{kind}/{case['bucket']}")
        await conn.disconnect()
        stats["unknown_server_commands"] += rig.unknown_commands()
    finally:
        rig.close()


async def reuse_case(loop, case, out, stats, fps):
    """One long-running worker; jobs enqueued one after another that re-use an argument-bucket id (and a result id)
    with different arguments: every execution must see the arguments of ITS job."""
    from rv.wl import World, run_worker

    kind = case["kind"]
    rnd = random.Random(case["seed"])
    w = World(loop, kind, converter="basic", seed=case["seed"], latency=None if kind == "mem" else 0.001)
    try:
        slow = case.get("slow", case["seed"] % 2 == 0)
        if slow:
            # a slow argument store (another server, another network path): the message must not be visible before
            # its arguments are stored (delay injected between the middleware wrapper and the broker method)
            mw = w.conn.args_bucket_broker.store_bucket
            orig_fn = mw.fn

            async def slow_store(*a, **kw):
                await asyncio.sleep(0.35)
                return await orig_fn(*a, **kw)

            mw.fn = slow_store
            stats["slow_argument_store_runs"] += 1
        await w.open()
        r = w.router()
        seen = []

        async def echo(**kwargs):
            seen.append(kwargs)
            return kwargs

        r.actor(name="echo")(echo)
        await w.conn.message_broker.queue_declare("default")
        from repid import Job

        worker = w.worker([r], tasks_limit=3, graceful_shutdown_time=3.0, handle_signals=[__import__("signal").SIGUSR1])
        task = loop.create_task(run_worker(w, worker, until=lambda: False, horizon=30.0, poll=0.1))
        sent = []
        # (bucket ids are free text: ids an application derives from its own data - other scripts, quotes, separators)
        HOSTILE_IDS = ["shared-0", "shared-1", "p\u00e4yload-42", "\u043e\u0442\u0447\u0451\u0442", "\u5831\u544a-7", 'say "hi"', "back\\slash", "line\nbreak", "user:42/report.json", " spaced id ", "tab\there", "{brace}"]
        ids = rnd.sample(HOSTILE_IDS, 2) if case["seed"] % 2 else ["shared-0", "shared-1"]
        stats["runs_with_free_text_bucket_ids" if case["seed"] % 2 else "runs_with_plain_bucket_ids"] += 1
        for i in range(rnd.randint(4, 8)):
            args = {"n": i, "v": rjson(rnd, 2), "who": rnd.choice(["alice", "bob", "carol"])}
            aid = rnd.choice(ids)
            job = Job("echo", id_=f"r{i}", args=args, args_id=aid, result_id=f"res-{ids.index(aid)}", use_args_bucketer=True, store_result=True, _connection=w.conn)  # (result ids are validated, argument ids are not)
            await job.enqueue()
            sent.append((job, args))
            for _ in range(200):
                # the result is stored before the message is disposed of: read it only after the ack was issued
                if len(seen) > i and w.dispositions(f"r{i}"):
                    break
                await asyncio.sleep(0.05)
            await asyncio.sleep(0.05)
            res = await job.result
            stats["items_judged"] += 1
            stats["jobs_roundtripped"] += 1
            stats["bucket_transport"] += 1
            stats["reused_bucket_ids"] += 1
            fps.add(f"reuse/{kind}/{i}/{aid}")
            want = json.loads(job.args)
            if len(seen) <= i:
                out.append(V("field_mismatch", kind, "payload/reused-bucket-id/not-run", f"job r{i} (args_id {aid}) was not executed"))
                break
            if seen[i] != want:
                out.append(V("field_mismatch", kind, "payload/reused-bucket-id", f"job r{i} re-uses argument bucket {aid!r}: the actor received {str(seen[i])[:120]}, enqueued {str(want)[:120]}"))
                break
            if res is None or json.loads(res.data) != want:
                out.append(V("field_mismatch", kind, "result/reused-result-id", f"job r{i}: Job.result holds {None if res is None else res.data[:100]}, expected the echo of {str(want)[:100]}"))
                break
        # jobs that leave every id to the library (no id, no args_id, no result_id), results on, one retry: the second
        # attempt and a second message sent from the same Job object still get the enqueued arguments (both bucket brokers
        # may well live in one store)
        attempts = {}

        async def flaky(**kwargs):
            k = kwargs.get("n")
            attempts.setdefault(k, []).append(kwargs)
            if len(attempts[k]) == 1:
                raise RuntimeError("first attempt fails")
            return {"done": k}

        r.actor(name="flaky")(flaky)
        # (the running worker was built from the router before: give it a worker of its own)
        from rv.wl import fire_stop

        fire_stop(loop)
        await task
        r2 = w.router(retry_policy=lambda retry_number=1: timedelta(seconds=0.2))
        r2.actor(name="flaky")(flaky)
        worker2 = w.worker([r2], tasks_limit=3, graceful_shutdown_time=3.0, handle_signals=[__import__("signal").SIGUSR1])
        task = loop.create_task(run_worker(w, worker2, until=lambda: False, horizon=20.0, poll=0.1))
        for n_ in (101, 102):
            args = {"n": n_, "v": rjson(rnd, 2)}
            job = Job("flaky", args=args, retries=1, use_args_bucketer=True, store_result=True, _connection=w.conn)
            await job.enqueue()
            for _ in range(200):
                if len(attempts.get(n_, [])) >= 2:
                    break
                await asyncio.sleep(0.05)
            stats["items_judged"] += 1
            stats["default_id_retries"] += 1
            want = json.loads(job.args)
            got = attempts.get(n_, [])
            if len(got) < 2 or got[1] != want:
                out.append(V("field_mismatch", kind, "payload/second-attempt-with-default-ids", f"a job with library-chosen ids, results on, one retry: attempts received {[str(g)[:80] for g in got]}, enqueued {str(want)[:80]}; "
                                                                                                 f"place {w.rig.snapshot()}"))
                break
        fire_stop(loop)
        await task
        stats["unknown_server_commands"] += w.rig.unknown_commands()
    finally:
        await w.close()


def run_case(case):
    from rv.sim import loop as vl

    stats = collections.Counter()
    out, fps, samples = [], set(), []
    refused = collections.Counter()
    if case["type"] == "jobs":
        res = vl.run(lambda loop: jobs_case(loop, case, out, stats, fps, samples, refused), max_steps=4_000_000, seed=case["seed"])
        if res.exc is not None:
            out.append(V("harness_or_api_error", case["kind"], "jobs", f"{type(res.exc).__name__}: {res.exc}"))
    elif case["type"] == "codec":
        codec_case(case, out, stats, fps)
    elif case["type"] == "keys":
        keys_case(case, out, stats, fps)
    elif case["type"] == "flush":
        res = vl.run(lambda loop: flush_case(loop, out, stats, fps), max_steps=4_000_000, seed=1)
        if res.exc is not None:
            out.append(V("harness_or_api_error", "-", "flush", f"{type(res.exc).__name__}: {res.exc}"))
    elif case["type"] == "jobtwins":
        res = vl.run(lambda loop: jobtwins_case(loop, case, out, stats, fps), max_steps=4_000_000, seed=case["seed"])
        if res.exc is not None:
            out.append(V("harness_or_api_error", case["kind"], "jobtwins", f"{type(res.exc).__name__}: {res.exc}"))
    elif case["type"] == "reuse":
        res = vl.run(lambda loop: reuse_case(loop, case, out, stats, fps), max_steps=4_000_000, seed=case["seed"])
        if res.exc is not None:
            out.append(V("harness_or_api_error", case["kind"], "reuse", f"{type(res.exc).__name__}: {res.exc}"))
    else:
        res = vl.run(lambda loop: collide_case(loop, out, stats, fps), max_steps=2_000_000, seed=1)
        if res.exc is not None:
            out.append(V("harness_or_api_error", "-", "collide", f"{type(res.exc).__name__}: {res.exc}"))
    if stats.get("unknown_server_commands"):
        return {"fp": None, "viol": [], "stats": dict(stats), "inconclusive": "fake server saw unknown commands"}
    for k, v in refused.items():
        stats["refused_inputs"] += v
    seen, vv = set(), []
    for v in out:
        if (v["rule"], v["broker"], v["context"]) not in seen:
            seen.add((v["rule"], v["broker"], v["context"]))
            vv.append(v)
    r = {"fp": None, "fps": sorted(fps), "viol": vv[:10], "stats": dict(stats), "sets": {"refused_input_kinds": sorted(refused)}}
    if samples:
        r["sample"] = samples[0]
    return r

"""C10 - messages_limit is an upper bound and a stop condition.

Workers with messages_limit=M face backlogs larger than M; the monitor counts actor starts during one run(), checks
that run() returns once they finished, and that every message beyond M is afterwards queued, untouched and not counted
as retried. The testing plugin's run-on-enqueue mode (M=1) is driven through sequences of enqueues.
"""
from __future__ import annotations

import asyncio
import collections
import random
from datetime import timedelta

LEVEL = "exploration"
RULE = ("M {1,2,5} x backlog {M+1, 3M, 50} x durations {0, 1ms, 1s, 6s} x tasks_limit {1, M, 1000} x 1-3 queues x broker, plus "
        "run-on-enqueue plugin sequences with failing/retrying jobs; evaluation = one worker run judged (or one plugin enqueue); "
        "fingerprint = (broker, M, backlog, duration, tasks_limit, queues) | (plugin, sequence); trivial = none")
ASSUMPTIONS = ["Redis and RabbitMQ are wire-level fakes", "virtual time; run() must return within longest actor + graceful period + 10 s after the M-th completion"]
EVAL_COUNTER = "runs_judged"
REQUIRED = ["runs_judged", "leftovers_checked", "plugin_enqueues", "runs_limit_lt_backlog_concurrent", "late_arrival_runs", "runs_with_due_recurring_jobs", "runs_with_a_failing_result_store_inside_the_budget", "budgets_ending_next_to_a_message_of_the_same_id"]
CASE_TIMEOUT = 150


def gen_cases(tier, seed):
    rnd = random.Random(seed)
    cases = []
    for kind in ("mem", "redis", "rabbit"):
        combos = []
        for M in (1, 2, 3, 5):
            for backlog in (M + 1, 3 * M, 50):
                for d in (0.0, 0.001, 1.0, 6.0, "mixed"):
                    for tl in sorted({1, 2, M, 1000}):
                        for nq in (1, 2, 3):
                            combos.append((M, backlog, d, tl, nq))
        rnd.shuffle(combos)
        n = {"quick": 40 if kind == "mem" else 14, "thorough": len(combos) if kind == "mem" else 120}[tier]
        for M, backlog, d, tl, nq in combos[:n]:
            cases.append({"type": "limit", "kind": kind, "M": M, "backlog": backlog if rnd.random() < 0.7 else M, "d": d, "tl": tl, "nq": nq, "seed": rnd.randrange(10**6), "late": rnd.random() < 0.5,
                          "leak": kind != "rabbit" and rnd.random() < 0.35,  # (on RabbitMQ a leaked cancellation shrinks the prefetch window: C09's finding)
                          "latency": None if kind == "mem" else rnd.choice([None, 0.002])})
    # an execution of the budget ends with an error of the worker's own bookkeeping (its result cannot be stored: the
    # connection has no results broker) while other executions of the budget are still running: run() waits for them
    for kind in ("mem", "redis", "rabbit"):
        for M, tl, dd in (((2, 2, 1.0), (3, 1000, 6.0)) if tier == "quick" else ((2, 2, 1.0), (3, 1000, 6.0), (2, 1000, 0.25), (5, 5, 1.0), (3, 3, "mixed"))):
            cases.append({"type": "limit", "kind": kind, "M": M, "backlog": M + 3, "d": dd, "tl": tl, "nq": 1, "seed": rnd.randrange(10**6), "late": False, "leak": False,
                          "latency": None if kind == "mem" else 0.002, "store_crash": True})
    # the message beyond the budget carries the id of the last one within it (an order id used for two priorities / two actors)
    # (not on Redis: there a leftover taken by the stopping worker's prefetcher can stay marked in flight, and same-id messages
    # share that mark - both listed findings, C10 `never-started` / C07 `in-flight-mark`)
    for kind in ("mem", "rabbit"):
        for variant in ("priority", "topic"):
            cases.append({"type": "same_id", "kind": kind, "variant": variant, "seed": rnd.randrange(10**6), "latency": None if kind == "mem" else 0.002})
    for c in cases:
        # every third backlog: a third of its jobs are recurring ones whose first slot comes up just before the worker starts
        c["recurring_due"] = c["seed"] % 3 == 0
    for i in range({"quick": 12, "thorough": 150}[tier]):
        cases.append({"type": "plugin", "kind": "mem", "seed": rnd.randrange(10**6), "len": rnd.choice([3, 6, 10])})
    return cases


def V(rule, kind, ctx, detail):
    return {"rule": rule, "broker": kind, "context": ctx, "detail": detail}


async def limit_scenario(loop, case, out, stats, fps, samples):
    from rv.wl import World

    kind, M, backlog, d, tl, nq = case["kind"], case["M"], case["backlog"], case["d"], case["tl"], case["nq"]
    rnd = random.Random(case["seed"])
    w = World(loop, kind, converter="basic", seed=case["seed"], latency=case["latency"], result_bucket=not case.get("store_crash"))
    try:
        await w.open()
        r = w.router()
        queues = [f"q{i}" for i in range(nq)]
        for i, q in enumerate(queues):
            w.scripted_actor(r, f"act{i}", queue=q)
            await w.conn.message_broker.queue_declare(q)
        ids = []
        from repid import PrioritiesT

        PRIOS = [PrioritiesT.MEDIUM, PrioritiesT.MEDIUM, PrioritiesT.HIGH, PrioritiesT.LOW]
        prio = {}
        recurring_due = set()

        def dur(qi):
            return [0.10, 0.25, 0.17][qi % 3] if d == "mixed" else d

        dmax = 0.25 if d == "mixed" else d
        for i in range(backlog):
            qi = rnd.randrange(nq)
            id_ = f"j{i:03d}"
            ids.append(id_)
            script = {"do": "ok", "d": dur(qi)}
            prio[id_] = rnd.choice(PRIOS)
            if case.get("leak") and rnd.random() < 0.3:
                # the actor lets a CancelledError escape: the execution was started and is over, it counts
                script = {"do": "raise", "exc": "CancelledError", "d": dur(qi)}
                stats["leaked_cancellations"] += 1
            kwj = {}
            if case.get("recurring_due") and i % 3 == 2:
                # a recurring job whose first slot comes up just before the worker starts: due, never run yet
                from datetime import datetime as _dt

                kwj = {"deferred_until": _dt.now() + timedelta(seconds=0.05 + 0.01 * i), "deferred_by": timedelta(hours=1)}
                recurring_due.add(id_)
            crash = bool(case.get("store_crash")) and i == 0
            if crash:
                # (first in line, over well before the others, asks for its result to be kept)
                script, prio[id_], kwj = {"do": "ok", "d": 0.3 * dmax, "ret": 1}, PrioritiesT.HIGH, {}
                recurring_due.discard(id_)
                stats["runs_with_a_failing_result_store_inside_the_budget"] += 1
            await w.job(f"act{qi}", id_, script, queue=queues[qi], retries=2, timeout=timedelta(seconds=60), store_result=crash, priority=prio[id_], **kwj).enqueue()
        if recurring_due:
            await asyncio.sleep(1.2)  # every first slot has come up (Redis scores are whole seconds)
            stats["runs_with_due_recurring_jobs"] += 1
        graceful = 20.0  # longer than every actor here: forced cancellation is C03's subject
        worker = w.worker([r], messages_limit=M, tasks_limit=tl, graceful_shutdown_time=graceful, handle_signals=[])
        # invariant at a hook (harness-side class-level wrapper): after every task-done callback the stop flag must be
        # up as soon as finished + in-flight (slots taken) reach the limit
        from repid._runner import _Runner

        orig_cb = _Runner._task_callback
        hook_log = []

        def cb(self, task):
            orig_cb(self, task)
            try:
                taken = self._tasks_concurrency_limit - self._limiter._value
                hook_log.append((self._tasks_processed, taken, self.stop_consume_event.is_set(), self.max_tasks))
            except AttributeError:
                hook_log.append(None)

        _Runner._task_callback = cb
        t0 = loop.time()
        task = loop.create_task(worker.run())

        async def late_producer():
            # more work arrives half a second after the M-th completion: a worker that has hit its limit must not touch it
            while len(w.events("actor_exit")) < M:
                await asyncio.sleep(0.05)
            await asyncio.sleep(0.5)
            for i in range(3):
                id_ = f"late{i}"
                await w.job("act0", id_, {"do": "ok", "d": dmax}, queue=queues[0], retries=2, timeout=timedelta(seconds=60), store_result=False).enqueue()
                ids.append(id_)

        prod = loop.create_task(late_producer()) if case.get("late") else None
        bound = M * dmax + dmax + graceful + 10.0 + backlog * {"mem": 0.05, "redis": 0.6, "rabbit": 0.2}[kind]
        returned = True
        raised = False
        try:
            await asyncio.wait_for(asyncio.shield(task), bound)
        except asyncio.TimeoutError:
            returned = False
            task.cancel()
            try:
                await task
            except BaseException:  # noqa: BLE001
                pass
        except Exception as exc:  # noqa: BLE001
            raised = True
            out.append(V("no_return", kind, f"raised:{type(exc).__name__}", f"Worker.run raised {exc!r}"))
        _Runner._task_callback = orig_cb
        t_ret = loop.time()
        if prod is not None:
            try:
                await asyncio.wait_for(prod, 5.0)
                stats["late_arrival_runs"] += 1
            except Exception:  # noqa: BLE001
                prod.cancel()
        await asyncio.sleep(0.4)
        ctx = f"M={M}/tl={'inf' if tl >= 1000 else ('1' if tl == 1 else 'M')}"
        stats["runs_judged"] += 1
        if tl > 1 and backlog > M:
            stats["runs_limit_lt_backlog_concurrent"] += 1
        fps.add(f"{kind}/{M}/{backlog}/{d}/{tl}/{nq}")
        starts = w.events("actor_start")
        exits = w.events("actor_exit")
        if hook_log and all(h is not None for h in hook_log):
            stats["limit_hook_evaluations"] += len(hook_log)
            for processed, taken, flag, mx in hook_log:
                # (the stricter "finished + slots taken >= M" was only a proxy for overshoot while overshoot was a known
                #  finding; since fix ffe46be extra starts are judged directly and the proxy would flag correct code)
                if processed >= mx and not flag:
                    out.append(V("no_return", kind, "stop-flag-not-raised", f"after a task-done callback: finished={processed}, slots taken={taken}, messages_limit={mx}, but the stop flag is not set (M={M}, tasks_limit={tl}, {nq} queues)"))
                    break
        else:
            stats["limit_hook_unavailable"] += 1
        if not returned:
            out.append(V("no_return", kind, ctx, f"run() did not return within {bound:.1f}s (M={M}, backlog {backlog}, d={d}); starts={len(starts)}"))
        if len(starts) > M:
            # when was the limit known to be hit? at the M-th completion (the only place the stop flag is raised)
            t_mth = sorted(e["t"] for e in exits)[M - 1] if len(exits) >= M else None
            late = [s for s in starts if t_mth is not None and s["t"] > t_mth + 1e-9]
            sub = "started-after-Mth-completion" if late else "started-before-Mth-completion"
            if late and len(late) <= nq and all(s["t"] <= t_mth + 0.25 for s in late):
                # one message per consumer loop can slip through in the window between the stop flag (raised in the M-th
                # task's done-callback) and the cancellation of the loop: parked on the semaphore, or already handed over
                sub += "/in-the-stop-window"
            # with fewer slots than M the flag is raised in anticipation (in-flight executions count): the bound is exact there
            sub += "/tl<M" if tl < M else ("/tl=M" if tl == M else "/tl>M")
            out.append(V("overshoot", kind, sub, f"messages_limit={M}, backlog {backlog}, actor duration {d}s, tasks_limit={tl}, {nq} queue(s): {len(starts)} actor executions started (M-th completion at {t_mth}, {len(late)} started after it)"))
        if returned and not raised and len(exits) < min(M, backlog) and len(starts) <= M:
            out.append(V("no_return", kind, "returned-early", f"run() returned after {len(exits)} completions with messages_limit={M}"))
        # every execution of the budget was allowed to finish (graceful time exceeds every actor here): none was cut short
        ended = {e["id"] for e in w.log.events if e.get("k") in ("actor_end", "actor_raise")}
        cut = sorted({e["id"] for e in exits} - ended)
        if cut:
            out.append(V("no_return", kind, "returned-with-executions-cut-short", f"messages_limit={M}, tasks_limit={tl}: executions of {cut[:4]} were started within the budget and cancelled before they finished "
                         f"(run() returned {t_ret - t0:.3f}s after it started, graceful_shutdown_time {graceful}s, actor duration {d}s); they are at {[snap_ for snap_ in [w.rig.snapshot().get(i) for i in cut[:4]]]}"))
        # leftovers: never started => queued, untouched
        started = {s["id"] for s in starts}
        snap = w.rig.snapshot()
        # ... and what WAS executed and acknowledged within the budget is not in the queue any more (a next worker with a
        # budget of its own would spend it on jobs that are done)
        acked = {e["id"] for e in w.log.events if e.get("k") == "ret" and e.get("op") == "ack" and e.get("depth") == 0}
        back = sorted(i for i in acked if snap.get(i))
        stats["acknowledged_executions_checked"] += len(acked)
        if back:
            out.append(V("leftover_touched", kind, "executed-and-still-queued", f"messages_limit={M}: {back[:4]} were executed and acknowledged, yet they are at {[snap.get(i) for i in back[:4]]} after run() returned"))
        for id_ in ids:
            if id_ in started:
                continue
            stats["leftovers_checked"] += 1
            place = snap.get(id_, [])
            st = w.rig.stored(id_)
            if id_ in recurring_due and place == ["delayed"]:
                continue  # still in the delayed store: whether it is still DUE is decided by the fresh consumer below
            if place != ["waiting"]:
                out.append(V("leftover_touched", kind, f"place={place[0] if place else 'nowhere'}", f"{id_} was never started but is at {place} after run() returned"))
                break
            if st is not None and st[1] is not None and st[1]["tried"] != 0:
                out.append(V("leftover_touched", kind, "counter", f"{id_} never started but carries already_tried={st[1]['tried']}"))
                break
        # ... and still what they were: a fresh consumer gets each waiting leftover once, under its own priority
        waiting = {i for i in ids if i not in started and (snap.get(i) == ["waiting"] or (i in recurring_due and snap.get(i) == ["delayed"]))}
        if waiting and not any(v["rule"] == "leftover_touched" for v in out):
            got = collections.Counter()
            wrong = []
            for q in queues:
                for cat, id_, _payload, _ps, key in await w.rig.drain(w.conn, q, with_key=True):
                    if id_ in waiting:
                        got[id_] += 1
                        if cat != "NORMAL" or (id_ in prio and key.priority != prio[id_].value):
                            wrong.append((id_, cat, key.priority))
            stats["leftovers_redelivered"] += sum(got.values())
            missing = sorted(i for i in waiting if got[i] != 1)
            if missing or wrong:
                out.append(V("leftover_touched", kind, "not-redeliverable-as-it-was", f"leftovers beyond the limit are no longer what was enqueued: delivered {dict((i, got[i]) for i in missing[:4])} times, wrong category/priority {wrong[:4]} (enqueued priorities {dict((i, prio[i].value) for i in missing[:4] if i in prio)})"))
        if len(samples) < 1:
            samples.append({"broker": kind, "M": M, "backlog": backlog, "d": d, "tasks_limit": tl, "queues": nq, "starts": len(starts), "returned_after_s": round(t_ret - t0, 3)})
        stats["unknown_server_commands"] += w.rig.unknown_commands()
    finally:
        await w.close()


async def same_id_scenario(loop, case, out, stats, fps, samples):
    from repid import PrioritiesT
    from rv.wl import World

    kind, variant = case["kind"], case["variant"]
    w = World(loop, kind, converter="basic", seed=case["seed"], latency=case["latency"])
    try:
        await w.open()
        r = w.router()
        w.scripted_actor(r, "charge", queue="q")
        w.scripted_actor(r, "receipt", queue="q")
        await w.conn.message_broker.queue_declare("q")
        kw = dict(queue="q", retries=0, timeout=timedelta(seconds=30), store_result=False)
        # consumption order: first, then "order-7" (second), then the other "order-7" (third, beyond the budget of 2)
        await w.job("charge", "first", {"do": "ok", "d": 0.2, "label": "first"}, priority=PrioritiesT.HIGH, args_id="a1", **kw).enqueue()
        if variant == "priority":
            await w.job("charge", "order-7", {"do": "ok", "d": 0.2, "label": "second"}, priority=PrioritiesT.HIGH, args_id="a2", **kw).enqueue()
            await w.job("charge", "order-7", {"do": "ok", "d": 0.2, "label": "third"}, priority=PrioritiesT.LOW, args_id="a3", **kw).enqueue()
        else:
            await w.job("charge", "order-7", {"do": "ok", "d": 0.2, "label": "second"}, priority=PrioritiesT.HIGH, args_id="a2", **kw).enqueue()
            await w.job("receipt", "order-7", {"do": "ok", "d": 0.2, "label": "third"}, priority=PrioritiesT.LOW, args_id="a3", **kw).enqueue()
        for M, who in ((2, "first worker"), (1, "second worker")):
            worker = w.worker([r], messages_limit=M, tasks_limit=1, graceful_shutdown_time=10.0, handle_signals=[])
            try:
                await asyncio.wait_for(worker.run(), 20.0)
            except asyncio.TimeoutError:
                out.append(V("leftover_touched" if who == "second worker" else "no_return", kind, f"same-id-beyond-the-limit/{variant}", f"the {who} (messages_limit={M}) had not returned after 20 s; executions so far "
                             f"{[e.get('label') for e in w.events('actor_start')]}; places of order-7: {w.rig.snapshot(detail=True).get('order-7')}"))
                break
            await asyncio.sleep(0.3)
        labels = [e.get("label") for e in w.events("actor_start")]
        stats["runs_judged"] += 1
        stats["budgets_ending_next_to_a_message_of_the_same_id"] += 1
        fps.add(f"{kind}/same_id/{variant}")
        if sorted(labels) != ["first", "second", "third"] and not out:
            out.append(V("leftover_touched", kind, f"same-id-beyond-the-limit/{variant}", f"executions {labels}, expected first, second (budget of 2) and then third by the next worker; order-7 is at {w.rig.snapshot(detail=True).get('order-7')}"))
        stats["unknown_server_commands"] += w.rig.unknown_commands()
    finally:
        await w.close()


async def plugin_scenario(loop, case, out, stats, fps, samples):
    from repid.testing.modifiers import RunWorkerOnEnqueueModifier
    from rv.wl import World

    rnd = random.Random(case["seed"])
    w = World(loop, "mem", converter="basic", seed=case["seed"])
    try:
        await w.open()
        r = w.router(retry_policy=lambda retry_number=1: timedelta(seconds=rnd.choice([0.0, 0.5, 30.0])))
        w.scripted_actor(r, "act")
        other = w.router()
        w.scripted_actor(other, "unrelated")  # not part of the plugin's router
        await w.conn.message_broker.queue_declare("default")
        from repid import Worker

        RunWorkerOnEnqueueModifier(
            w.conn.message_broker,
            lambda: Worker(routers=[r], messages_limit=1, handle_signals=[], auto_declare=False, _connection=w.conn),
        )
        seq = []
        for i in range(case["len"]):
            kindj = rnd.choice(["ok", "ok", "fail_retry", "delayed", "unrelated"])
            if i == case["len"] - 1 and rnd.random() < 0.5:
                kindj = "leak"  # last in the sequence: its message is never disposed of and would be served to every later run
            id_ = f"p{i:02d}"
            seq.append(kindj)
            n_before = len(w.events("actor_start"))
            if kindj == "ok":
                job = w.job("act", id_, {"do": "ok"}, store_result=False)
            elif kindj == "leak":
                job = w.job("act", id_, {"do": "raise", "exc": "CancelledError"}, store_result=False)  # executed once, then over
            elif kindj == "fail_retry":
                job = w.job("act", id_, {"by_attempt": [{"do": "raise"}, {"do": "ok"}]}, retries=1, store_result=False)
            elif kindj == "delayed":
                job = w.job("act", id_, {"do": "ok"}, store_result=False, deferred_until=__import__("datetime").datetime.now() + timedelta(seconds=rnd.choice([0.5, 60])))
            else:
                job = w.job("unrelated", id_, {"do": "ok"}, store_result=False)
            try:
                await asyncio.wait_for(job.enqueue(), 120)
            except asyncio.TimeoutError:
                out.append(V("plugin_not_once", "mem", "enqueue-hangs", f"enqueue of {kindj} job {id_} did not return within 120 s; sequence {seq}"))
                break
            stats["plugin_enqueues"] += 1
            new = w.events("actor_start")[n_before:]
            mine = [s for s in new if s["id"] == id_]
            if kindj in ("ok", "fail_retry", "leak") and len(mine) != 1:
                why = "ran-more-than-once" if mine else ("earlier-message-taken-instead" if new and all(s["id"] < id_ for s in new) else "nothing-ran")
                out.append(V("plugin_not_once", "mem", why, f"after enqueue() of {id_} returned it had been executed {len(mine)} times; executed instead: {[s['id'] for s in new]}; sequence so far {seq}"))
            if kindj == "unrelated" and new:
                out.append(V("plugin_not_once", "mem", "unrelated-ran", f"enqueue of a job the router does not know started {[s['id'] for s in new]}"))
            if len(new) > 1:
                out.append(V("overshoot", "mem", "plugin", f"one enqueue started {len(new)} executions: {[s['id'] for s in new]}"))
            await asyncio.sleep(rnd.choice([0.0, 0.2, 1.0]))
        fps.add("plugin/" + ",".join(seq))
        stats["runs_judged"] += 1
        if len(samples) < 1:
            samples.append({"plugin_sequence": seq, "executions": [s["id"] for s in w.events("actor_start")]})
    finally:
        await w.close()


def run_case(case):
    from rv.sim import loop as vl

    stats = collections.Counter()
    out, fps, samples = [], set(), []
    fn = limit_scenario if case["type"] == "limit" else same_id_scenario if case["type"] == "same_id" else plugin_scenario
    res = vl.run(lambda loop: fn(loop, case, out, stats, fps, samples), max_steps=6_000_000, seed=case["seed"])
    if res.exc is not None:
        if isinstance(res.exc, vl.StepLimit):
            return {"fp": None, "viol": [], "stats": dict(stats), "inconclusive": str(res.exc)}
        out.append(V("harness_or_api_error", case["kind"], "scenario", f"{type(res.exc).__name__}: {res.exc}"))
    if stats.get("unknown_server_commands"):
        return {"fp": None, "viol": [], "stats": dict(stats), "inconclusive": "fake server saw unknown commands"}
    r = {"fp": None, "fps": sorted(fps), "viol": out[:6], "stats": dict(stats)}
    if samples and case["cid"] % 6 == 0:
        r["sample"] = samples[0]
    return r

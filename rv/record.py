"""Boundary recorders: subclasses of repid's broker/consumer/bucket classes, created in the harness, that log a
`call` event before delegating and a `ret`/`raise` event after. No repository code is edited."""
from __future__ import annotations

import asyncio
import hashlib
from contextvars import ContextVar

_depth: ContextVar[int] = ContextVar("rv_depth", default=0)


class EventLog:
    def __init__(self, loop=None):
        self.loop = loop
        self.events: list[dict] = []
        self.seq = 0
        self.extra = None  # optional callable -> dict merged into every event (e.g. a context variable)

    def add(self, **ev):
        loop = self.loop
        if loop is not None:
            ev["t"] = loop.time()
            ev["step"] = getattr(loop, "steps", 0)
        if self.extra is not None:
            ev.update(self.extra())
        self.seq += 1
        ev["n"] = self.seq
        self.events.append(ev)
        return self.seq

    def __iter__(self):
        return iter(self.events)

    def __len__(self):
        return len(self.events)

    def select(self, **kw):
        return [e for e in self.events if all(e.get(k) == v for k, v in kw.items())]

    def digest(self) -> str:
        h = hashlib.sha1()
        for e in self.events:
            h.update(repr(sorted((k, v) for k, v in e.items() if k not in ("task",))).encode())
        return h.hexdigest()[:16]


def iso(d):
    return d.isoformat() if d is not None else None


def secs(td):
    return td.total_seconds() if td is not None else None


def psum(p) -> dict | None:
    if p is None:
        return None
    try:
        return {
            "tried": p.retries.already_tried, "max": p.retries.max_amount,
            "next": iso(p.delay.next_execution_time), "until": iso(p.delay.delay_until), "by": secs(p.delay.defer_by),
            "cron": p.delay.cron, "ts": iso(p.timestamp), "ttl": secs(p.ttl), "timeout": secs(p.execution_timeout),
            "result": None if p.result is None else {"id": p.result.id_, "ttl": secs(p.result.ttl)},
        }
    except AttributeError:
        return {"repr": repr(p)}


def ksum(key) -> dict:
    return {"id": key.id_, "queue": key.queue, "topic": key.topic, "prio": key.priority}


def _describe_call(name, self, a, kw):
    d = {}
    if name in ("enqueue", "requeue", "ack", "nack", "reject"):
        key = a[0] if a else kw.get("key")
        d.update(ksum(key))
        if name in ("enqueue", "requeue"):
            payload = a[1] if len(a) > 1 else kw.get("payload", "")
            params = a[2] if len(a) > 2 else kw.get("params")
            d["payload"] = payload
            d["params"] = psum(params)
    elif name in ("queue_declare", "queue_flush", "queue_delete"):
        d["queue"] = a[0] if a else kw.get("queue_name")
    elif name in ("get_bucket", "delete_bucket", "store_bucket"):
        d["id"] = a[0] if a else kw.get("id_")
        if name == "store_bucket":
            b = a[1] if len(a) > 1 else kw.get("payload")
            d["bucket"] = bsum(b)
    elif name in ("consume", "start", "finish", "pause", "unpause"):
        d["queue"] = getattr(self, "queue_name", None)
        d["cat"] = getattr(getattr(self, "category", None), "value", None)
    return d


def bsum(b):
    if b is None:
        return None
    out = {"data": b.data, "ts": iso(b.timestamp), "ttl": secs(b.ttl)}
    for f in ("started_when", "finished_when", "success", "exception"):
        if hasattr(b, f):
            out[f] = getattr(b, f)
    return out


def _describe_ret(name, result):
    if name == "consume" and result is not None:
        key, payload, params = result
        d = ksum(key)
        d["payload"] = payload
        d["params"] = psum(params)
        return d
    if name == "get_bucket":
        return {"bucket": bsum(result)}
    return {}


def recording_subclass(base, methods, log: EventLog, extra_ns=None):
    """Return a subclass of ``base`` whose ``methods`` are logged around the original implementation."""
    ns = dict(extra_ns or {})
    for name in methods:
        orig = getattr(base, name)

        def make(name=name, orig=orig):
            async def rec(self, *a, **kw):
                d = _depth.get()
                info = _describe_call(name, self, a, kw)
                task = asyncio.current_task()
                seq = log.add(k="call", op=name, who=getattr(self, "_rv_label", "?"), depth=d,
                              task=task.get_name() if task else None, **info)
                tok = _depth.set(d + 1)
                try:
                    r = await orig(self, *a, **kw)
                except BaseException as e:  # noqa: BLE001
                    log.add(k="raise", op=name, who=getattr(self, "_rv_label", "?"), depth=d, of=seq,
                            exc=type(e).__name__, id=info.get("id"), queue=info.get("queue"))
                    raise
                finally:
                    _depth.reset(tok)
                ri = _describe_ret(name, r)
                if "id" not in ri and "id" in info:
                    ri["id"] = info["id"]
                if "queue" not in ri and "queue" in info:
                    ri["queue"] = info["queue"]
                if "cat" in info:
                    ri["cat"] = info["cat"]
                log.add(k="ret", op=name, who=getattr(self, "_rv_label", "?"), depth=d, of=seq, **ri)
                return r

            rec.__name__ = name
            rec.__qualname__ = f"{base.__name__}.{name}"
            rec.__wrapped__ = orig
            return rec

        ns[name] = make()
    return type("Rec" + base.__name__, (base,), ns)


BROKER_METHODS = ("enqueue", "reject", "ack", "nack", "requeue", "queue_declare", "queue_flush", "queue_delete")
CONSUMER_METHODS = ("consume", "start", "finish", "pause", "unpause")
BUCKET_METHODS = ("get_bucket", "store_bucket", "delete_bucket")

"""Generated actors that need real (non-string) annotations: this module must NOT use
`from __future__ import annotations`, repid reads dependency markers from the annotation objects."""
from typing import Annotated

from repid import Depends, MessageDependency


async def failing_dep():
    raise ConnectionError("dependency down")


def register_failing_actors(router, log):
    async def depact(script: dict, m: MessageDependency, d: Annotated[int, Depends(failing_dep)]):
        log.add(k="actor_start", id=m.key.id_, attempt=m.parameters.retries.already_tried, actor="depact")
        return 1

    router.actor(name="depact")(depact)

    async def strict(script: dict, must_have: int, m: MessageDependency):
        log.add(k="actor_start", id=m.key.id_, attempt=m.parameters.retries.already_tried, actor="strict")
        if not isinstance(must_have, int):
            raise TypeError("made-up value")
        return 1

    router.actor(name="strict")(strict)

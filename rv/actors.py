"""Generated actors that need real (non-string) annotations: this module must NOT use
`from __future__ import annotations`, repid reads dependency markers from the annotation objects."""
from typing import Annotated

from repid import Depends, MessageDependency


async def failing_dep():
    raise ConnectionError("dependency down")


def register_failing_actors(router, log):
    async def depact(script: dict, m: MessageDependency, d: Annotated[int, Depends(failing_dep)]):
        log.add(k="actor_start", id=m.key.id_, attempt=m.parameters.retries.already_tried, actor="depact")
        return 1

    router.actor(name="depact")(depact)

    async def strict(script: dict, must_have: int, m: MessageDependency):
        log.add(k="actor_start", id=m.key.id_, attempt=m.parameters.retries.already_tried, actor="strict")
        if not isinstance(must_have, int):
            raise TypeError("made-up value")
        return 1

    router.actor(name="strict")(strict)


# ---------------------------------------------------------------------------------------------- C18: dependency graphs
import inspect
from typing import Any


def make_provider(name, subdeps, *, is_async, extra_default=None, fail=False, record=None, msg_leaf=False, suspend=0.0, dep_defaults=False):
    """Provider returning the token (name, sorted(resolved sub-dependency values)).
    subdeps: list of (param_name, Depends object)."""
    def compute(kw):
        if record is not None:
            record.append(name)
        if fail:
            raise ConnectionError(f"provider {name} failed")
        items = []
        for k, v in sorted(kw.items()):
            if k == "m":
                items.append(("m", ("msg", v.key.id_)))
            else:
                items.append((k, v))
        return (name, tuple(items))

    if is_async:
        async def prov(**kw):
            if suspend:
                import asyncio as _a

                await _a.sleep(suspend)  # a provider that really awaits (I/O): other messages run meanwhile
            return compute(kw)
    else:
        def prov(**kw):
            return compute(kw)

    # dep_defaults: the dependency parameters also carry a default (the idiom that keeps a provider callable on its own in
    # unit tests: `conn: Annotated[Conn, Depends(get_conn)] = None`); the injected value wins over the default
    dflt = (lambda v: {"default": v}) if dep_defaults else (lambda v: {})
    params = [inspect.Parameter(p, inspect.Parameter.KEYWORD_ONLY, annotation=Annotated[Any, d], **dflt("own-default-not-injected")) for p, d in subdeps]
    if msg_leaf:
        params.append(inspect.Parameter("m", inspect.Parameter.KEYWORD_ONLY, annotation=MessageDependency, **dflt(None)))
    if extra_default is not None:
        params.append(inspect.Parameter("plain", inspect.Parameter.KEYWORD_ONLY, default=extra_default, annotation=int))
    prov.__signature__ = inspect.Signature(params)
    prov.__name__ = f"prov_{name}"
    return prov


def make_dep_actor(name, dep_params, plain_params, log, received):
    """Actor with dependency parameters `dep_params` [(pname, Depends)] interleaved with payload parameters
    `plain_params` [(pname, kind, default|inspect._empty)]; records the kwargs it was called with."""
    async def body(*a, **kw):
        m = kw.get("m")
        rid = m.key.id_ if m is not None else None
        received.append({"actor": name, "id": rid, "args": list(a), "kwargs": {k: v for k, v in kw.items() if k != "m"}})
        log.add(k="actor_start", id=rid, attempt=m.parameters.retries.already_tried if m is not None else 0, actor=name)
        return 1

    params = []
    for pname, kind, default in plain_params:
        if kind == "po":
            params.append(inspect.Parameter(pname, inspect.Parameter.POSITIONAL_ONLY, default=default, annotation=int))
    mixed = [(p, "dep", d) for p, d in dep_params] + [(p, k, d) for p, k, d in plain_params if k == "pk"]
    mixed.sort(key=lambda x: x[0])
    # parameters with defaults must follow those without among positional-or-keyword ones
    no_def = [x for x in mixed if x[1] == "dep" or x[2] is inspect.Parameter.empty]
    with_def = [x for x in mixed if not (x[1] == "dep" or x[2] is inspect.Parameter.empty)]
    for pname, k, d in no_def + with_def:
        if k == "dep":
            params.append(inspect.Parameter(pname, inspect.Parameter.POSITIONAL_OR_KEYWORD, annotation=Annotated[Any, d]))
        else:
            params.append(inspect.Parameter(pname, inspect.Parameter.POSITIONAL_OR_KEYWORD, default=d, annotation=int))
    for pname, kind, default in plain_params:
        if kind == "ko":
            params.append(inspect.Parameter(pname, inspect.Parameter.KEYWORD_ONLY, default=default, annotation=int))
    params.append(inspect.Parameter("m", inspect.Parameter.KEYWORD_ONLY, annotation=MessageDependency))
    body.__signature__ = inspect.Signature(params)
    body.__name__ = name
    return body


def declarations(out, stats, fps, V):
    """Unsupported declarations are rejected when declared (ValueError), never accepted to fail at run time."""
    from repid import Depends, Router
    from repid.converter import BasicConverter, PydanticConverter
    from repid.router import RouterDefaults

    def ok():
        return 1

    d = Depends(ok)
    shapes = []

    def po_dep(a: Annotated[Any, d], /):
        ...

    def po_dep2(x: int, a: Annotated[Any, d], /, y: int = 1):
        ...

    shapes.append(("actor/positional-only-dependency", "both", po_dep))
    shapes.append(("actor/positional-only-dependency-2", "both", po_dep2))

    def var_args(*args):
        ...

    def var_kwargs(**kwargs):
        ...

    def var_both(a: int, *args, **kwargs):
        ...

    shapes.append(("actor/var-positional", "pydantic", var_args))
    shapes.append(("actor/var-keyword", "pydantic", var_kwargs))
    shapes.append(("actor/var-both", "pydantic", var_both))
    for tag, which, fn in shapes:
        for cname, conv in (("basic", BasicConverter), ("pydantic", PydanticConverter)):
            if which != "both" and which != cname:
                continue
            stats["declaration_rejections"] += 1
            fps.add(f"decl/{tag}/{cname}")
            r = Router(defaults=RouterDefaults(converter=conv))
            try:
                r.actor(fn)
                out.append(V("late_rejection", tag, f"{tag} under {cname}: accepted at declaration"))
            except ValueError:
                pass
            except Exception as exc:  # noqa: BLE001
                out.append(V("late_rejection", tag + "/wrong-exception", f"{tag} under {cname}: raised {type(exc).__name__}: {exc}"))
    # providers
    prov_shapes = []

    def p_required(x):
        ...

    def p_required_kw(*, x):
        ...

    def p_po_dep(a: Annotated[Any, d], /):
        ...

    def p_varargs(*args):
        ...

    def p_varkw(**kw):
        ...

    async def p_async_required(x: int):
        ...

    for tag, fn in (("provider/required-plain", p_required), ("provider/required-kwonly", p_required_kw), ("provider/positional-only-dependency", p_po_dep),
                    ("provider/var-positional", p_varargs), ("provider/var-keyword", p_varkw), ("provider/async-required", p_async_required)):
        stats["declaration_rejections"] += 1
        fps.add(f"decl/{tag}")
        try:
            Depends(fn)
            out.append(V("late_rejection", tag, f"Depends({fn.__name__}) accepted"))
        except ValueError:
            pass
        except Exception as exc:  # noqa: BLE001
            out.append(V("late_rejection", tag + "/wrong-exception", f"{tag}: {type(exc).__name__}: {exc}"))
        # ... and as an override
        good = Depends(ok)
        try:
            good.override(fn)
            out.append(V("late_rejection", tag + "/override", f"override({fn.__name__}) accepted"))
        except ValueError:
            pass
        except Exception as exc:  # noqa: BLE001
            out.append(V("late_rejection", tag + "/override-wrong-exception", f"{tag}: {type(exc).__name__}: {exc}"))




# ---------------------------------------------------------------------------------------------- C08: signatures
from typing import Optional

ANNOS = {"int": int, "str": str, "float": float, "bool": bool, "list[int]": list[int], "dict[str,int]": dict[str, int],
         "Optional[int]": Optional[int], "none": inspect.Parameter.empty}
SAMPLE = {"int": [3, 0, -7], "str": ["s", ""], "float": [1.5, -0.25], "bool": [True, False], "list[int]": [[1, 2], []],
          "dict[str,int]": [{"k": 1}, {}], "Optional[int]": [None, 4], "none": [1, "x", [1], {"z": 2}, None]}


def _dep_provider():
    return "DEP"


DEP = Depends(_dep_provider)
KINDS = {"po": inspect.Parameter.POSITIONAL_ONLY, "pk": inspect.Parameter.POSITIONAL_OR_KEYWORD, "ko": inspect.Parameter.KEYWORD_ONLY}


def build_signature_fn(spec, ret_anno=None, name="sigfn"):
    """spec: list of dicts {name, kind: po|pk|ko|dep|var_args|var_kwargs, anno, has_default, default}.
    Returns (fn, calls) where fn(*a, **kw) records its call in `calls`."""
    calls = []

    async def fn(*a, **kw):
        calls.append((a, kw))
        return None

    params = []
    for p in spec:
        if p["kind"] == "var_args":
            params.append(inspect.Parameter("args", inspect.Parameter.VAR_POSITIONAL))
        elif p["kind"] == "var_kwargs":
            params.append(inspect.Parameter("kwargs", inspect.Parameter.VAR_KEYWORD))
        elif p["kind"] == "dep":
            params.append(inspect.Parameter(p["name"], KINDS[p["dep_kind"]], annotation=Annotated[Any, DEP]))
        else:
            params.append(inspect.Parameter(p["name"], KINDS[p["kind"]], annotation=ANNOS[p["anno"]],
                                            default=p["default"] if p["has_default"] else inspect.Parameter.empty))
    kw = {}
    if ret_anno is not None:
        kw["return_annotation"] = ret_anno
    fn.__signature__ = inspect.Signature(params, **kw)
    fn.__name__ = name
    return fn, calls


# ---------------------------------------------------------------------------------------------- eager response inside a provider
def register_guarded_actor(router, log, name="guarded"):
    """Actor whose dependency `guard` may answer the message eagerly (script key "eager_in_dep") before the actor body runs."""
    import json as _json
    from datetime import timedelta as _td

    seen = {}

    async def guard(m: MessageDependency):
        script = _json.loads(m.raw_payload).get("script", {})
        action = script.get("eager_in_dep")
        n = seen[m.key.id_] = seen.get(m.key.id_, 0) + 1
        if action and n == 1:
            log.add(k="dep_eager", id=m.key.id_, action=action)
            if action in ("retry", "force_retry"):
                await getattr(m, action)(_td(seconds=3600))
            else:
                await getattr(m, action)()
            log.add(k="dep_continued", id=m.key.id_)
        return "guard-ok"

    async def body(script: dict, g: Annotated[Any, Depends(guard)], m: MessageDependency):
        log.add(k="actor_start", id=m.key.id_, attempt=m.parameters.retries.already_tried, actor=name, guard=str(g)[:40])
        return 1

    body.__name__ = name
    router.actor(name=name)(body)


# ------------------------------------------------------- C18: the message dependency belongs to the current delivery
def register_fresh_actor(router, name, seen, keep, fail_until, via_retry):
    """Actor and provider both take the MessageDependency; each execution records what its `m` says about the delivery.
    keep=True holds on to every `m` (user code keeping the handle around, e.g. for a later report)."""
    kept = []

    async def look(m: MessageDependency):
        if keep:
            kept.append(m)
        return {"id": m.key.id_, "tried": m.parameters.retries.already_tried, "read_only": m.read_only, "ts": m.parameters.timestamp.isoformat(), "obj": id(m)}

    async def body(g: Annotated[Any, Depends(look)], m: MessageDependency):
        if keep:
            kept.append(m)
        rec = {"id": m.key.id_, "provider": g, "actor": {"tried": m.parameters.retries.already_tried, "read_only": m.read_only, "obj": id(m)}}
        seen.append(rec)
        n = len([r for r in seen if r["id"] == m.key.id_])
        if n <= fail_until:
            if via_retry:
                await m.retry()  # explicit retry through the handle
                return None
            raise ValueError("not yet {0}")
        return n

    body.__name__ = name
    router.actor(name=name)(body)
    return kept


# ---------------------------------------- C18: payload keys named like dependency parameters never replace the provider
def register_shadow_actors(router, seen, with_kwargs=True):
    async def token():
        return ("provided", ())

    async def shadowed(a: int, x0: Annotated[Any, Depends(token)], m: MessageDependency, **extra):
        seen.append({"id": m.key.id_ if isinstance(m, MessageDependency) else None, "a": a, "x0": x0, "m_is_handle": isinstance(m, MessageDependency), "extra": dict(extra)})
        return 1

    async def shadowed_plain(a: int, x0: Annotated[Any, Depends(token)], m: MessageDependency, b: int = 2):
        seen.append({"id": m.key.id_ if isinstance(m, MessageDependency) else None, "a": a, "x0": x0, "m_is_handle": isinstance(m, MessageDependency), "extra": {}})
        return 1

    if with_kwargs:
        router.actor(name="shadowed")(shadowed)
    router.actor(name="shadowed_plain")(shadowed_plain)


# ------------------------------------------------ C18: what a provider RETURNS is a value, whatever its type
def register_excvalue_actors(router, seen):
    async def last_error():
        return ConnectionResetError("peer went away")  # returned, not raised

    def sync_error():
        return KeyError("k")

    async def parent(e: Annotated[Any, Depends(sync_error)]):
        return ("parent", type(e).__name__, isinstance(e, BaseException))

    async def takes_error(err: Annotated[Any, Depends(last_error)], m: MessageDependency):
        seen.append({"id": m.key.id_, "actor": "takes_error", "value": (type(err).__name__, str(err))})
        return 1

    async def takes_parent(p: Annotated[Any, Depends(parent)], cls: Annotated[Any, Depends(lambda: StopIteration)], m: MessageDependency):
        seen.append({"id": m.key.id_, "actor": "takes_parent", "value": (p, getattr(cls, "__name__", repr(cls)))})
        return 1

    router.actor(name="takes_error")(takes_error)
    router.actor(name="takes_parent")(takes_parent)


# ---------------------------------------- C11: an actor that enqueues a follow-up job for another topic of the same queue
def register_chain_actor(router, name, queue, log, tag, follow_name, conn):
    from repid import Job

    async def body(script: dict, m: MessageDependency):
        log.add(k="actor_start", id=m.key.id_, attempt=m.parameters.retries.already_tried, actor=name, queue=m.key.queue, topic=m.key.topic, reg=tag)
        # first thing it does: hand the next step of the pipeline to the other topic's worker
        await Job(follow_name, id_=f"{m.key.id_}-f", queue=queue, args={"script": {"do": "ok", "d": 0.0}}, store_result=False, use_args_bucketer=False, _connection=conn).enqueue()
        log.add(k="actor_end", id=m.key.id_, attempt=m.parameters.retries.already_tried, actor=name)
        return None

    body.__name__ = name
    router.actor(name=name, queue=queue)(body)
    return body


# ---------------------------------------- C17: an actor that uses several connections while it runs
def register_cross_actor(router, name, queue, conns, log):
    """conns: {label: Connection}. The body enqueues one raw message on every connection's broker (its own and the others)
    and reads an argument bucket there: all of it happens inside the wrapped actor_run of the worker's connection."""
    async def body(m: MessageDependency):
        log.add(k="actor_start", id=m.key.id_, attempt=m.parameters.retries.already_tried, actor=name)
        for lab, c in sorted(conns.items()):
            mb = c.message_broker
            await mb.enqueue(mb.ROUTING_KEY_CLASS(id_=f"{m.key.id_}-to-{lab}", topic="t", queue="manual" + lab), "from-actor", mb.PARAMETERS_CLASS())
            if c.args_bucket_broker is not None:
                await c.args_bucket_broker.get_bucket("no-such-bucket")
        log.add(k="actor_end", id=m.key.id_, attempt=m.parameters.retries.already_tried, actor=name)
        return None

    body.__name__ = name
    router.actor(name=name, queue=queue)(body)
    return body


# ---------------------------------------- C08: a two-step pipeline that re-uses one argument bucket id for its next step
def register_bucket_chain_actor(router, name, conn, calls, args_id):
    from repid import Job

    async def body(step: int = 0, note: str = "none", extra: Optional[int] = None):
        calls.append({"step": step, "note": note, "extra": extra})
        if step == 1:
            # next step: same bucket id (the documented chaining recipe), new content that leaves `note` and `extra` out
            await Job(name, id_=f"{name}-2", args={"step": 2}, args_id=args_id, use_args_bucketer=True, store_result=False, _connection=conn).enqueue()

    body.__name__ = name
    router.actor(name=name)(body)
    return body


# ---------------------------------------- C18: a provider declared to run in a separate process (must be importable there)
def heavy_provider():
    import os

    return ("declared", os.getpid())


def register_inproc_actor(router, name, received):
    dep = Depends(heavy_provider, run_in_process=True)

    async def body(v: Annotated[Any, dep], tag: str = ""):
        received.append((tag, v))

    body.__name__ = name
    router.actor(name=name)(body)
    return dep


class LazyHandle:
    """A value that happens to be awaitable (a lazy client call an application hands around and awaits where it needs it)."""

    def __init__(self, tag):
        self.tag = tag
        self.awaited = 0

    def __await__(self):
        self.awaited += 1
        yield from ()
        return f"resolved-{self.tag}"


def register_awaitable_value_actors(router, received, made):
    """Sync providers (a plain def, a lambda installed by override, one nested under a parent provider) whose return VALUE is
    awaitable: the dependency parameter receives that very object."""

    def give_handle():
        h = LazyHandle("direct")
        made["direct"] = h
        return h

    def give_child():
        h = LazyHandle("child")
        made["child"] = h
        return h

    def parent(c: Annotated[Any, Depends(give_child)]):
        made["parent_saw"] = c
        return ("parent", c)

    placeholder = Depends(lambda: "placeholder")

    async def takes_direct(v: Annotated[Any, Depends(give_handle)]):
        received["direct"] = v

    async def takes_nested(v: Annotated[Any, Depends(parent)]):
        received["nested"] = v

    async def takes_override(v: Annotated[Any, placeholder]):
        received["override"] = v

    router.actor(name="takes_direct")(takes_direct)
    router.actor(name="takes_nested")(takes_nested)
    router.actor(name="takes_override")(takes_override)

    def replacement():
        h = LazyHandle("override")
        made["override"] = h
        return h

    placeholder.override(replacement)
    return ["takes_direct", "takes_nested", "takes_override"]

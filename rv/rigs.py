"""BrokerRig: the same operations on the three brokers.

kind "mem": repid's InMemoryMessageBroker; "redis": the real RedisMessageBroker/redis-py over the in-memory wire
to FakeRedis; "rabbit": the real RabbitMessageBroker/aiormq over the wire to FakeAMQP.
"""
from __future__ import annotations

import asyncio
import random

from rv.record import (BROKER_METHODS, BUCKET_METHODS, CONSUMER_METHODS, EventLog, ksum, psum,
                       recording_subclass)

KINDS = ("mem", "redis", "rabbit")


class Rig:
    def __init__(self, kind: str, loop, *, latency=None, seed: int = 0, amqp_opts: dict | None = None,
                 record: bool = True, broker_attrs: dict | None = None):
        assert kind in KINDS, kind
        self.kind = kind
        self.loop = loop
        self.log = EventLog(loop)
        self.record = record
        self.broker_attrs = broker_attrs or {}
        self.rnd = random.Random(seed)
        self.latency = latency  # None | float | ("rand", max)
        self.net = None
        self.server = None
        self.conns: dict[str, object] = {}
        self._nlabel = 0
        self._ncons = 0
        if kind in ("redis", "rabbit"):
            from rv.sim.memnet import Net

            self.net = Net()
            self.net.install()
            if kind == "redis":
                from rv.fakes.redis_server import FakeRedis

                self.server = FakeRedis()
            else:
                from rv.fakes.amqp_server import FakeAMQP

                opts = {"deliver_before_confirm": "random", "rnd": random.Random(seed + 17)}
                opts.update(amqp_opts or {})
                self.server = FakeAMQP(**opts)
        # bucket server for redis bucket brokers (used by any kind on request)
        self._bucket_server = None

    # ---- construction
    def _lat(self):
        lat = self.latency
        if lat is None:
            return lambda: 0.0
        if isinstance(lat, (int, float)):
            return lambda: float(lat)
        mx = lat[1]
        rnd = self.rnd
        return lambda: round(rnd.random() * mx, 6)

    def _broker_classes(self):
        log = self.log
        rig = self

        def consumer_init_hook(cls):
            orig_init = cls.__init__

            def __init__(self, broker, *a, **kw):  # noqa: N807
                orig_init(self, broker, *a, **kw)
                rig._ncons += 1
                self._rv_label = f"{getattr(broker, '_rv_label', '?')}/c{rig._ncons}"

            return __init__

        if self.kind == "mem":
            from repid.connections.in_memory.consumer import _InMemoryConsumer
            from repid.connections.in_memory.message_broker import InMemoryMessageBroker

            cbase, bbase = _InMemoryConsumer, InMemoryMessageBroker
        elif self.kind == "redis":
            from repid.connections.redis.consumer import _RedisConsumer
            from repid.connections.redis.message_broker import RedisMessageBroker

            cbase, bbase = _RedisConsumer, RedisMessageBroker
        else:
            from repid.connections.rabbitmq.consumer import _RabbitConsumer
            from repid.connections.rabbitmq.message_broker import RabbitMessageBroker

            cbase, bbase = _RabbitConsumer, RabbitMessageBroker
        if self.record:
            ccls = recording_subclass(cbase, CONSUMER_METHODS, log)
        else:
            ccls = type("Plain" + cbase.__name__, (cbase,), {})
        ccls.__init__ = consumer_init_hook(ccls)
        ns = {"CONSUMER_CLASS": ccls}
        ns.update(self.broker_attrs)
        if self.record:
            bcls = recording_subclass(bbase, BROKER_METHODS, log, ns)
        else:
            bcls = type("Plain" + bbase.__name__, (bbase,), ns)
        return bcls

    def new_label(self, prefix="p"):
        self._nlabel += 1
        return f"{prefix}{self._nlabel}"

    def make_broker(self, label: str):
        bcls = self._broker_classes()
        if self.kind == "mem":
            b = bcls()
        elif self.kind == "redis":
            host = f"redis-{label}"
            self.net.register(host, self.server.handle, self._lat())
            b = bcls(f"redis://{host}:6379/0")
        else:
            host = f"amqp-{label}"
            self.net.register(host, self.server.handle, self._lat())
            b = bcls(f"amqp://guest:guest@{host}:5672/?heartbeat=0")
        b._rv_label = label
        return b

    def make_bucket_broker(self, label: str, *, result: bool, kind: str | None = None):
        kind = kind or ("redis" if self.kind == "redis" else "mem")
        if kind == "mem":
            from repid.connections.in_memory.bucket_broker import InMemoryBucketBroker as base

            cls = recording_subclass(base, BUCKET_METHODS, self.log) if self.record else base
            b = cls(use_result_bucket=result)
        else:
            from repid.connections.redis.bucket_broker import RedisBucketBroker as base

            if self.net is None:
                from rv.sim.memnet import Net

                self.net = Net()
                self.net.install()
            if self._bucket_server is None:
                if self.kind == "redis":
                    self._bucket_server = self.server
                else:
                    from rv.fakes.redis_server import FakeRedis

                    self._bucket_server = FakeRedis()
            host = f"redisb-{label}-{'r' if result else 'a'}"
            self.net.register(host, self._bucket_server.handle, self._lat())
            cls = recording_subclass(base, BUCKET_METHODS, self.log) if self.record else base
            b = cls(f"redis://{host}:6379/1", use_result_bucket=result)
        b._rv_label = f"{label}/{'rb' if result else 'ab'}"
        return b

    def make_connection(self, label: str | None = None, *, args_bucket: bool = True, result_bucket: bool = True,
                        bucket_kind: str | None = None, share_mem: bool = True):
        from repid.connection import Connection

        if self.kind == "mem" and share_mem and self.conns and label is None:
            return next(iter(self.conns.values()))
        label = label or self.new_label()
        if self.kind == "mem" and share_mem and self.conns:
            mb = next(iter(self.conns.values())).message_broker
        else:
            mb = self.make_broker(label)
        conn = Connection(
            mb,
            self.make_bucket_broker(label, result=False, kind=bucket_kind) if args_bucket else None,
            self.make_bucket_broker(label, result=True, kind=bucket_kind) if result_bucket else None,
        )
        self.conns[label] = conn
        return conn

    def kill(self, label: str):
        """Process death: the wire of that process is cut in both directions."""
        if self.net is not None:
            for host in list(self.net.conns):
                if host.endswith("-" + label) or f"-{label}-" in host:
                    self.net.kill(host)

    def close(self):
        if self.net is not None:
            self.net.uninstall()

    # ---- state snapshot: id -> sorted list of places
    def snapshot(self, detail: bool = False):
        places: dict[str, list] = {}

        def put(id_, place, queue=None, extra=None):  # detail: (place, queue, priority)
            places.setdefault(id_, []).append((place, queue, extra) if detail else place)

        if self.kind == "mem":
            brokers = {id(c.message_broker): c.message_broker for c in self.conns.values()}
            for b in brokers.values():
                for qn, q in b.queues.items():
                    for m in list(q.simple._queue):
                        put(m.key.id_, "waiting", qn, m.key.priority)
                    for t, ms in q.delayed.items():
                        for m in ms:
                            put(m.key.id_, "delayed", qn, m.key.priority)
                    for m in q.dead:
                        put(m.key.id_, "dead", qn, m.key.priority)
                    for m in q.processing:
                        put(m.key.id_, "held", qn, m.key.priority)
        elif self.kind == "redis":
            srv = self.server
            for k in list(srv.d):
                v = srv._live(k)
                if v is None:
                    continue
                ks = k.decode()
                if ks.startswith("q:"):
                    parts = ks.split(":")
                    qn, marker = parts[1], parts[-1]
                    place = {"n": "waiting", "d": "delayed", "dead": "dead"}.get(marker, "?" + marker)
                    members = list(v) if isinstance(v, list) else list(v.keys())
                    for mname in members:
                        id_ = mname.decode().split(":")[-1]
                        put(id_, place, qn, int(parts[2]) if parts[2].isdigit() else None)
                elif ks == "processing":
                    for mname, score in v.items():
                        put(mname.decode().split(":")[-1], "held", None, None)
        else:
            srv = self.server
            for qn, q in srv.q.items():
                base, place = qn, "waiting"
                if qn.endswith(":delayed"):
                    base, place = qn[: -len(":delayed")], "delayed"
                elif qn.endswith(":dead"):
                    base, place = qn[: -len(":dead")], "dead"
                for m in q.msgs:
                    put(m.props.message_id, place, base, m.props.priority)
            for c in srv.conns:
                for ch in c.channels.values():
                    for dtag, (qn, m, ctag) in ch.unacked.items():
                        put(m.props.message_id, "held", qn, m.props.priority)
        return {k: sorted(v, key=str) for k, v in places.items()}

    def stored(self, id_: str):
        """(payload, params-summary) the broker stores for a message id, or None when not introspectable."""
        import json

        if self.kind == "mem":
            for c in self.conns.values():
                for qn, q in c.message_broker.queues.items():
                    for m in list(q.simple._queue) + [x for ms in q.delayed.values() for x in ms] + list(q.dead) + list(q.processing):
                        if m.key.id_ == id_:
                            return m.payload, psum(m.parameters)
            return None
        if self.kind == "redis":
            from repid.data._parameters import Parameters

            for k, v in self.server.d.items():
                ks = k.decode()
                if ks.startswith("m:") and ks.split(":")[-1] == id_ and isinstance(v, dict):
                    if b"payload" in v and b"parameters" in v:
                        return v[b"payload"].decode(), psum(Parameters.decode(v[b"parameters"].decode()))
            return None
        from repid.data._parameters import Parameters

        for q in self.server.q.values():
            for m in q.msgs:
                if m.props.message_id == id_:
                    d = json.loads(m.body)
                    return d["payload"], psum(Parameters.decode(d["parameters"])) if d["parameters"] else None
        return None

    def unknown_commands(self) -> int:
        n = 0
        for s in (self.server, self._bucket_server):
            if s is not None and hasattr(s, "unknown"):
                n += len(s.unknown)
        return n

    async def quiesce_wire(self, max_wait: float = 2.0):
        """Return at an instant when no bytes are in flight on any connection (so that a clock jump does not
        trip a client-side socket timeout of a request that merely happened to be on the wire)."""
        if self.net is None:
            return
        waited = 0.0
        while waited < max_wait:
            busy = any(ct._q or st._q for pairs in self.net.conns.values() for ct, st in pairs)
            if not busy:
                await asyncio.sleep(0)
                await asyncio.sleep(0)
                busy = any(ct._q or st._q for pairs in self.net.conns.values() for ct, st in pairs)
                if not busy:
                    return
            await asyncio.sleep(0.00037)
            waited += 0.00037

    # ---- API-only drain audit
    async def drain(self, conn, queue: str, *, ack: bool = True, with_key: bool = False):
        """Consume everything from NORMAL, then DELAYED, then DEAD through the public API.
        Returns list of (category, id, payload, params-summary)."""
        from repid.message import MessageCategory

        idle = {"mem": 0.0517, "redis": 1.5173, "rabbit": 0.3517}[self.kind]
        out = []
        for _pass in range(4):
            n0 = len(out)
            for cat in (MessageCategory.NORMAL, MessageCategory.DELAYED, MessageCategory.DEAD):
                cons = conn.message_broker.get_consumer(queue, None, None, cat)
                await cons.start()
                try:
                    while True:
                        try:
                            key, payload, params = await asyncio.wait_for(cons.consume(), timeout=idle)
                        except asyncio.TimeoutError:
                            break
                        out.append((cat.value, key.id_, payload, psum(params)) + ((key,) if with_key else ()))
                        if ack:
                            await conn.message_broker.ack(key)
                finally:
                    await cons.finish()
                    await asyncio.sleep(0.15 if self.kind == "rabbit" else 0.001)
            if len(out) == n0:
                break
        return out


def key_of(conn, id_, topic="t", queue="default", priority=5):
    return conn.message_broker.ROUTING_KEY_CLASS(id_=id_, topic=topic, queue=queue, priority=priority)


__all__ = ["Rig", "KINDS", "key_of", "ksum", "psum"]

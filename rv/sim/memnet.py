"""In-memory replacement for ``asyncio.open_connection`` (the only call redis-py and aiormq use to reach a
server): FIFO-stable duplex byte streams with per-connection virtual latency and a kill switch.

``Net.register(host, handler)`` maps a *host label* (one simulated client process per label) to an async
server handler ``handler(reader, writer, label)``. ``Net.kill(label)`` closes both directions of every
connection opened under that label and drops bytes in flight (process death).
"""
from __future__ import annotations

import asyncio
import collections


class MemTransport(asyncio.Transport):
    def __init__(self, loop, latency):
        super().__init__()
        self._loop = loop
        self._lat = latency
        self._closing = False
        self._dead = False
        self._last = 0.0
        self._q = collections.deque()
        self.peer_reader: asyncio.StreamReader | None = None
        self.peer: MemTransport | None = None
        self.protocol = None
        self.bytes_written = 0

    # one flush callback per write, but data is taken from the deque in order: FIFO even when asyncio's
    # timer heap reorders equal deadlines.
    def write(self, data):
        if self._closing or self._dead or not data:
            return
        t = max(self._loop.time() + self._lat(), self._last)
        self._last = t
        self._q.append((t, bytes(data)))
        self.bytes_written += len(data)
        self._loop.call_at(t, self._flush)

    def _flush(self):
        r = self.peer_reader
        # asyncio runs a timer as soon as when < now + clock_resolution: use the same horizon, or an entry whose
        # deadline is one ulp ahead of `now` would be skipped by its own (only) flush callback and never delivered
        now = self._loop.time() + getattr(self._loop, "_clock_resolution", 1e-9)
        while self._q and self._q[0][0] <= now:
            _, data = self._q.popleft()
            if data is None:
                if r is not None and not r.at_eof():
                    r.feed_eof()
                continue
            if self._dead:
                continue
            if r is not None and not r.at_eof():
                r.feed_data(data)

    def writelines(self, lines):
        self.write(b"".join(lines))

    def can_write_eof(self):
        return True

    def write_eof(self):
        self._send_eof()

    def _send_eof(self):
        t = max(self._loop.time(), self._last)
        self._last = t
        self._q.append((t, None))
        self._loop.call_at(t, self._flush)

    def is_closing(self):
        return self._closing

    def close(self):
        if self._closing:
            return
        self._closing = True
        self._send_eof()
        if self.protocol is not None:
            self._loop.call_soon(self.protocol.connection_lost, None)

    def abort(self):
        self.close()

    def kill(self):
        """Drop everything in flight, EOF to the peer immediately."""
        self._dead = True
        self._q.clear()
        r = self.peer_reader
        if r is not None and not r.at_eof():
            r.feed_eof()
        if not self._closing:
            self._closing = True
            if self.protocol is not None:
                self._loop.call_soon(self.protocol.connection_lost, ConnectionResetError("killed"))

    def get_extra_info(self, name, default=None):
        return {"peername": ("mem", 0), "sockname": ("mem", 1), "socket": None}.get(name, default)

    def get_write_buffer_size(self):
        return 0

    def get_write_buffer_limits(self):
        return (0, 0)

    def set_write_buffer_limits(self, high=None, low=None):
        pass

    def pause_reading(self):
        pass

    def resume_reading(self):
        pass

    def is_reading(self):
        return True

    def get_protocol(self):
        return self.protocol

    def set_protocol(self, protocol):
        self.protocol = protocol


def make_pair(loop, latency):
    ra = asyncio.StreamReader(loop=loop, limit=2**26)
    rb = asyncio.StreamReader(loop=loop, limit=2**26)
    pa = asyncio.StreamReaderProtocol(ra, loop=loop)
    pb = asyncio.StreamReaderProtocol(rb, loop=loop)
    ta = MemTransport(loop, latency)
    tb = MemTransport(loop, latency)
    ta.peer_reader, tb.peer_reader = rb, ra
    ta.peer, tb.peer = tb, ta
    ra.set_transport(ta)
    rb.set_transport(tb)
    ta.protocol, tb.protocol = pa, pb
    wa = asyncio.StreamWriter(ta, pa, ra, loop)
    wb = asyncio.StreamWriter(tb, pb, rb, loop)
    return (ra, wa, ta), (rb, wb, tb)


class Net:
    def __init__(self):
        self.servers: dict[str, object] = {}
        self.latency: dict[str, object] = {}
        self.conns: dict[str, list] = collections.defaultdict(list)
        self.server_tasks: list[asyncio.Task] = []
        self.opened = 0
        self._orig = None

    def register(self, host: str, handler, latency=None) -> None:
        self.servers[host] = handler
        self.latency[host] = latency or (lambda: 0.0)

    async def open_connection(self, host=None, port=None, **kw):
        loop = asyncio.get_running_loop()
        if host not in self.servers:
            raise ConnectionRefusedError(f"memnet: no server for {host!r}")
        handler = self.servers[host]
        (cr, cw, ct), (sr, sw, st) = make_pair(loop, self.latency[host])
        self.conns[host].append((ct, st))
        self.opened += 1
        task = loop.create_task(handler(sr, sw, host))
        self.server_tasks.append(task)
        return cr, cw

    def kill(self, host: str) -> None:
        for ct, st in self.conns.get(host, []):
            ct.kill()
            st.kill()
        self.servers.pop(host, None)

    def install(self):
        self._orig = asyncio.open_connection
        asyncio.open_connection = self.open_connection
        # aiormq/redis-py look the function up through the asyncio module attribute at call time

    def uninstall(self):
        if self._orig is not None:
            asyncio.open_connection = self._orig
            self._orig = None

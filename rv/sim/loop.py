"""VirtualLoop: a SelectorEventLoop on a virtual clock.

* the clock only advances inside ``select()`` when nothing is ready, and it advances to the deadline of
  the earliest timer (timers fire exactly at their ``when``);
* the libc wall clock (``libvclock.so``) is re-synchronised at the instant the loop clock advances;
* ``steps`` counts ``_run_once`` iterations; ``step_hook(k)`` runs at the start of iteration k (fault
  injection point);
* ``run_in_executor`` runs inline (no thread hop; the path through ``asyncify`` is kept);
* nothing scheduled and nothing ready -> ``Deadlock``; more than ``max_steps`` iterations -> ``StepLimit``.
"""
from __future__ import annotations

import asyncio
import ctypes
import math
import os
import time as _time

EPOCH_S = 2_208_988_800  # 2040-01-01T00:00:00Z
EPOCH_NS = EPOCH_S * 1_000_000_000

_lib = None


def _load():
    global _lib
    if _lib is None:
        path = os.environ.get("VCLOCK_LIB")
        if not path:
            raise RuntimeError("VCLOCK_LIB not set; run through ./check")
        _lib = ctypes.CDLL(path)
        _lib.vclock_set_ns.argtypes = [ctypes.c_int64]
        _lib.vclock_get_ns.restype = ctypes.c_int64
        _lib.vclock_calls.restype = ctypes.c_long
    return _lib


def wall_set(vnow: float) -> None:
    _load().vclock_set_ns(EPOCH_NS + int(round(vnow * 1e9)))


def wall_passthrough() -> None:
    _load().vclock_set_ns(-1)


def wall_calls() -> int:
    return _load().vclock_calls()


class Deadlock(RuntimeError):
    pass


class StepLimit(RuntimeError):
    pass


class VirtualLoop(asyncio.SelectorEventLoop):
    def __init__(self, max_steps: int = 2_000_000, inline_executor: bool = True):
        self._vnow = 0.0
        self.steps = 0
        self.max_steps = max_steps
        self.step_hook = None  # callable(step:int) -> None
        self.inline_executor = inline_executor
        self.exc_log: list[dict] = []  # loop exception handler records
        self.teardown = False
        super().__init__()
        real_select = self._selector.select

        def select(timeout=None):
            ev = real_select(0)
            if ev:
                return ev
            if timeout is None:
                raise Deadlock("virtual loop: nothing ready, nothing scheduled")
            if timeout > 0:
                when = self._scheduled[0]._when if self._scheduled else self._vnow + timeout
                self._vnow = max(self._vnow, min(when, self._vnow + timeout))
                wall_set(self._vnow)
            return []

        self._selector.select = select
        wall_set(self._vnow)
        self.set_exception_handler(self._on_exc)

    # ---- clock
    def time(self) -> float:
        return self._vnow

    def jump(self, dt: float) -> None:
        """Advance both clocks without running iterations (suspended process / clock step)."""
        self._vnow += dt
        wall_set(self._vnow)

    def jump_to(self, t: float) -> None:
        if t > self._vnow:
            self._vnow = t
            wall_set(self._vnow)

    # ---- stepping
    def _run_once(self):
        self.steps += 1
        if self.steps > self.max_steps:
            raise StepLimit(f"more than {self.max_steps} loop iterations")
        hook = self.step_hook
        if hook is not None:
            hook(self.steps)
        # asyncio runs a timer when `when < time() + clock_resolution`; months into a virtual run 1 ns is below the spacing
        # of doubles and a due timer would never fire: keep the resolution at two ulps of the current instant
        if self._vnow > 1e6:
            self._clock_resolution = max(1e-9, 2 * math.ulp(self._vnow))
        super()._run_once()

    # ---- executor
    def run_in_executor(self, executor, func, *args):
        if not self.inline_executor:
            return super().run_in_executor(executor, func, *args)
        # no threads under the virtual clock, but the shape of a real executor is kept: the call happens later and its
        # completion reaches the awaiting task on a later loop iteration (an already-done future would not suspend at all)
        fut = self.create_future()

        def run():
            if fut.cancelled():
                return
            try:
                fut.set_result(func(*args))
            except BaseException as exc:  # noqa: BLE001
                if isinstance(exc, (KeyboardInterrupt, SystemExit)):
                    raise
                fut.set_exception(exc)

        self.call_soon(run)
        return fut

    # ---- diagnostics
    def _on_exc(self, loop, context):
        if self.teardown:
            return
        rec = {"message": context.get("message"), "t": self._vnow, "step": self.steps}
        exc = context.get("exception")
        if exc is not None:
            rec["exception"] = f"{type(exc).__name__}: {exc}"
        self.exc_log.append(rec)


def await_chain(task: asyncio.Task) -> tuple:
    """Coroutine names of a task's await chain, followed through awaited Tasks, to the innermost
    suspension (the task's *suspension signature*)."""
    out = []
    seen = set()
    cur = task
    while cur is not None and id(cur) not in seen:
        seen.add(id(cur))
        coro = cur.get_coro() if isinstance(cur, asyncio.Task) else None
        nxt = None
        while coro is not None:
            name = getattr(coro, "__qualname__", None) or type(coro).__name__
            frame = getattr(coro, "cr_frame", None) or getattr(coro, "gi_frame", None)
            lineno = frame.f_lineno if frame is not None else 0
            out.append(f"{name}:{lineno}")
            inner = getattr(coro, "cr_await", None)
            if inner is None:
                inner = getattr(coro, "gi_yieldfrom", None)
            coro = inner if hasattr(inner, "cr_frame") or hasattr(inner, "gi_frame") else None
            if coro is None and inner is not None:
                # a Future (maybe a Task) or an awaitable iterator
                fut = inner
                if isinstance(fut, asyncio.Task):
                    nxt = fut
                else:
                    # _GatheringFuture / plain future: look at what it waits for
                    children = getattr(fut, "_children", None)
                    if children:
                        out.append("gather[" + ",".join(sorted("/".join(await_chain(c)) for c in children if isinstance(c, asyncio.Task))) + "]")
                    else:
                        out.append(type(fut).__name__)
        cur = nxt
    return tuple(out)


def strip_lines(chain: tuple) -> tuple:
    return tuple(x.rsplit(":", 1)[0] if ":" in x and x.rsplit(":", 1)[1].isdigit() else x for x in chain)


class RunResult:
    __slots__ = ("value", "exc", "steps", "vtime", "exc_log", "real_s")


def run(coro_factory, *, max_steps: int = 2_000_000, step_hook=None, seed: int | None = None,
        inline_executor: bool = True) -> RunResult:
    """Run ``coro_factory(loop)`` to completion on a fresh VirtualLoop. Never raises for errors of the
    coroutine itself; they are returned in ``RunResult.exc``."""
    import random

    if seed is not None:
        random.seed(seed)
    loop = VirtualLoop(max_steps=max_steps, inline_executor=inline_executor)
    loop.step_hook = step_hook
    asyncio.set_event_loop(loop)
    res = RunResult()
    res.value = None
    res.exc = None
    t0 = _time.perf_counter()
    main = None
    try:
        main = loop.create_task(coro_factory(loop))
        res.value = loop.run_until_complete(main)
    except BaseException as exc:  # noqa: BLE001
        if isinstance(exc, (KeyboardInterrupt, SystemExit)):
            raise
        res.exc = exc
    finally:
        res.steps = loop.steps
        res.vtime = loop.time()
        res.exc_log = list(loop.exc_log)
        loop.teardown = True
        loop.step_hook = None
        loop.max_steps = loop.steps + 200_000
        try:
            for _ in range(5):
                pending = [t for t in asyncio.all_tasks(loop) if not t.done()]
                if not pending:
                    break
                for t in pending:
                    t.cancel()
                try:
                    loop.run_until_complete(asyncio.gather(*pending, return_exceptions=True))
                except BaseException:  # noqa: BLE001
                    break
        finally:
            try:
                loop.run_until_complete(loop.shutdown_asyncgens())
            except BaseException:  # noqa: BLE001
                pass
            asyncio.set_event_loop(None)
            loop.close()
        res.real_s = _time.perf_counter() - t0
    return res

"""Pinned wall clock helpers for checks that do not need an event loop."""
from __future__ import annotations

from datetime import datetime, timezone

from rv.sim.loop import EPOCH_NS, _load

UTC_EPOCH = datetime(1970, 1, 1)


def _local_offset():
    """UTC offset of the process's (fixed-offset) local time zone; zero on a UTC machine."""
    probe = 400 * 86400
    return datetime.fromtimestamp(probe) - datetime.fromtimestamp(probe, tz=timezone.utc).replace(tzinfo=None)


def pin(dt: datetime) -> None:
    """Make datetime.now()/time.time() return ``dt`` (naive LOCAL time) exactly (microsecond resolution)."""
    delta = dt - UTC_EPOCH - _local_offset()
    ns = (delta.days * 86400 + delta.seconds) * 1_000_000_000 + delta.microseconds * 1000
    _load().vclock_set_ns(ns)


def self_check() -> bool:
    d = datetime(2040, 1, 2, 3, 4, 5, 678901)
    pin(d)
    return datetime.now() == d


def virtual_now(loop_time: float) -> datetime:
    return datetime.fromtimestamp((EPOCH_NS + int(round(loop_time * 1e9))) / 1e9, tz=timezone.utc).replace(tzinfo=None)

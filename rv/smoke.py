import asyncio, sys, json
from datetime import timedelta, datetime
from rv.sim import loop as vl
from rv.rigs import Rig, key_of

def go(kind):
    async def main(loop):
        rig = Rig(kind, loop, latency=0.001 if kind != "mem" else None)
        try:
            conn = rig.make_connection("p1")
            await conn.connect()
            mb = conn.message_broker
            await mb.queue_declare("default")
            P = mb.PARAMETERS_CLASS
            from repid.data._parameters import DelayProperties
            await mb.enqueue(key_of(conn, "m1"), "pay1", P())
            await mb.enqueue(key_of(conn, "m2"), "pay2", P(delay=DelayProperties(next_execution_time=datetime.now()+timedelta(seconds=2.5))))
            await mb.enqueue(key_of(conn, "m3", priority=0), "pay3", P())
            print(kind, "snap0", rig.snapshot())
            c = mb.get_consumer("default", ["t"], 10)
            await c.start()
            got = []
            for _ in range(3):
                k, p, pr = await asyncio.wait_for(c.consume(), 10)
                got.append((k.id_, k.priority, p, round(loop.time(),3)))
                if k.id_ == "m1": await mb.ack(k)
                elif k.id_ == "m2": await mb.nack(k)
                else: await mb.requeue(k, "pay3b", P(delay=DelayProperties(next_execution_time=datetime.now()+timedelta(seconds=100))))
            print(kind, "got", got)
            await c.finish()
            print(kind, "snap1", rig.snapshot(), rig.stored("m3"))
            print(kind, "drain", [(a,b,c_) for a,b,c_,d in await rig.drain(conn, "default")])
            print(kind, "snap2", rig.snapshot(), "unknown", rig.unknown_commands())
            # worker
            from repid import Router, Worker, Job
            from repid.converter import BasicConverter
            from repid.router import RouterDefaults
            r = Router(defaults=RouterDefaults(converter=BasicConverter))
            ran = []
            @r.actor
            async def act(x: int = 0):
                ran.append((x, round(loop.time(),3)))
                await asyncio.sleep(1)
                return x*2
            for i in range(3):
                await Job("act", args={"x": i}, _connection=conn).enqueue()
            w = Worker(routers=[r], messages_limit=3, tasks_limit=2, handle_signals=[], _connection=conn)
            await asyncio.wait_for(w.run(), 100)
            print(kind, "ran", ran, "snap3", rig.snapshot(), "events", len(rig.log))
            await conn.disconnect()
        finally:
            rig.close()
    res = vl.run(main, max_steps=500000)
    print(kind, "exc", repr(res.exc), "steps", res.steps, "vt", round(res.vtime,3), "real", round(res.real_s,2), "loopexc", res.exc_log[:3])
    if res.exc:
        import traceback; traceback.print_exception(res.exc)
for k in sys.argv[1:]:
    go(k)

"""Worker-level workload helpers: a World (rig + connection + generated actors that log what they do)."""
import asyncio
from datetime import timedelta

from rv.rigs import Rig

EXC = {
    "ValueError": ValueError, "RuntimeError": RuntimeError, "KeyError": KeyError, "TimeoutError": TimeoutError,
    "ZeroDivisionError": ZeroDivisionError, "ConnectionError": ConnectionError, "AssertionError": AssertionError,
}


class AppTimeout(TimeoutError):
    """A TimeoutError subclass raised by an actor itself (not by the execution timeout)."""


class EmptyErrors(Exception):
    """An aggregate exception raised with nothing in it: a perfectly good exception whose instance is falsy."""

    def __len__(self):
        return 0


class QuietError(Exception):
    def __bool__(self):
        return False


EXC["AppTimeout"] = AppTimeout
EXC["EmptyErrors"] = EmptyErrors
EXC["QuietError"] = QuietError
class Unprintable(Exception):
    """An exception whose text cannot be produced (a __str__ that itself fails, as with half-initialised library errors)."""

    def __str__(self):
        raise RuntimeError("this exception has no printable form")

    __repr__ = __str__


EXC["Unprintable"] = Unprintable
EXC["CancelledError"] = asyncio.CancelledError  # an actor that lets a helper's cancellation escape (helper.cancel(); await helper)


HOSTILE_TEXTS = ["boom", "missing {value}", "{", "}{0}{}", "100%s %d %(x)s", "input_value={'b': 1}", "", "x" * 3000, "ünïcødé \u2028 line\nbreak", '{"json": [1, 2]}']


def converter_cls(name: str):
    from repid.converter import BasicConverter, DefaultConverter, PydanticConverter

    return {"basic": BasicConverter, "pydantic": PydanticConverter, "default": DefaultConverter}[name]


BAD_RETURNS = {"set": lambda: {1, 2}, "bytes": lambda: b"\x00\xff", "object": object, "tuple_key": lambda: {(1, 2): 3}, "complex": lambda: 1 + 2j,
               "nested": lambda: {"ok": [1, {"deep": {3}}]}}


class World:
    def __init__(self, loop, kind: str = "mem", *, latency=None, seed: int = 0, converter: str = "basic",
                 args_bucket: bool = True, result_bucket: bool = True, bucket_kind=None, amqp_opts=None, magic: bool = False):
        self.loop = loop
        self.magic = magic  # jobs and workers find the connection by themselves (Repid(...).magic_connect()) instead of being given it
        self.kind = kind
        self.rig = Rig(kind, loop, latency=latency, seed=seed, amqp_opts=amqp_opts)
        self.log = self.rig.log
        self.converter = converter
        self.conn = self.rig.make_connection("w1", args_bucket=args_bucket, result_bucket=result_bucket, bucket_kind=bucket_kind)
        self.inflight = 0
        self.seen = {}
        self.iteration = {}
        self.loop_cap = 12
        self.max_inflight = 0
        self.actor_starts = 0
        self.stale_deps = []
        self.kept_handles = []

    async def open(self):
        if self.magic:
            from repid import Repid

            self.app = Repid(self.conn)
            await self.app.magic_connect()
        else:
            await self.conn.connect()

    async def close(self):
        try:
            if self.magic:
                await asyncio.wait_for(self.app.magic_disconnect(), 30)
            else:
                await asyncio.wait_for(self.conn.disconnect(), 30)
        except Exception:  # noqa: BLE001
            pass
        self.rig.close()

    def router(self, converter=None, queue: str = "default", retry_policy=None):
        from repid import Router
        from repid.router import RouterDefaults

        kw = {"converter": converter_cls(converter or self.converter), "queue": queue}
        if retry_policy is not None:
            kw["retry_policy"] = retry_policy
        return Router(defaults=RouterDefaults(**kw))

    # ---- the scripted actor
    def scripted_actor(self, router, name: str = "act", queue=None, retry_policy=None, sync: bool = False, tag=None, worker_tag=None):
        """Registers an actor `name(script: dict, m: MessageDependency)` that follows script['by_attempt'][attempt]
        = {"d": seconds, "do": "ok"|"raise"|"eager", ...} and logs actor_start/actor_end/actor_raise events."""
        from repid import MessageDependency

        world = self
        log = self.log

        async def body(script: dict, m: MessageDependency):
            attempt = m.parameters.retries.already_tried
            id_ = m.key.id_
            if attempt == 0:
                world.iteration[id_] = world.iteration.get(id_, 0) + 1
            if "by_iter" in script:
                its = script["by_iter"]
                script = its[min(world.iteration.get(id_, 1) - 1, len(its) - 1)]
            steps = script.get("by_attempt") or [script]
            st = steps[min(attempt, len(steps) - 1)]
            nth = world.seen[(id_, attempt)] = world.seen.get((id_, attempt), 0) + 1
            if nth > 1 and "then" in st:
                st = st["then"]  # repeat delivery of the same attempt (after a reject): follow the alternative
            if nth > world.loop_cap:
                log.add(k="delivery_loop", id=id_, attempt=attempt, nth=nth)
                st = {"do": "ok"}  # break a redelivery loop (reported by the monitor) so that the run terminates
            # ground truth for the injected message dependency: the delivery this execution was started for
            last = None
            for e in reversed(log.events):
                if e.get("k") == "ret" and e.get("op") == "consume" and e.get("id") == id_:
                    last = e
                    break
            if last is not None and (last.get("params") or {}).get("tried") not in (None, attempt):
                world.stale_deps.append({"id": id_, "delivered_tried": last["params"]["tried"], "dependency_tried": attempt})
            if st.get("keep_handle") or script.get("keep_handle"):
                world.kept_handles.append(m)  # user code that holds on to the handle (a report list, a closure, a traceback)
            world.inflight += 1
            world.actor_starts += 1
            world.max_inflight = max(world.max_inflight, world.inflight)
            log.add(k="actor_start", id=id_, attempt=attempt, actor=name, queue=m.key.queue, topic=m.key.topic, iteration=world.iteration.get(id_, 0), reg=tag,
                    inflight=world.inflight, label=script.get("label"), prio=m.key.priority, params_ts=m.parameters.timestamp.isoformat(), retries_max=m.parameters.retries.max_amount,
                    next=m.parameters.delay.next_execution_time.isoformat() if m.parameters.delay.next_execution_time else None)
            try:
                d = st.get("d", 0)
                if d:
                    await asyncio.sleep(d)
                do = st.get("do", "ok")
                if do == "ok":
                    log.add(k="actor_end", id=id_, attempt=attempt, actor=name)
                    return st.get("ret")
                if do == "badret":
                    # finishes normally with a value its converter cannot encode: the execution counts as failed
                    log.add(k="actor_raise", id=id_, attempt=attempt, actor=name, exc="TypeError(unencodable return value)")
                    return BAD_RETURNS[st.get("what", "set")]()
                if do == "eager_on_cancel":
                    # runs into its execution timeout and answers for the message itself while it is being cancelled
                    try:
                        await asyncio.sleep(st.get("hang", 30.0))
                    except asyncio.CancelledError:
                        log.add(k="actor_eager", id=id_, attempt=attempt, actor=name, action=st["action"])
                        await asyncio.sleep(st.get("cleanup", 0.05))
                        act = getattr(m, st["action"])
                        if st["action"] in ("retry", "force_retry"):
                            await act(timedelta(seconds=st.get("next", 3600.0)))
                        else:
                            await act()
                        log.add(k="body_continued", id=id_, attempt=attempt, actor=name)
                        raise
                    log.add(k="actor_end", id=id_, attempt=attempt, actor=name)
                    return None
                if do == "hang_cleanup":
                    # runs into its execution timeout and then takes a while to unwind (awaits in its cancellation handler)
                    try:
                        await asyncio.sleep(st.get("hang", 30.0))
                    except asyncio.CancelledError:
                        log.add(k="actor_cleanup", id=id_, attempt=attempt, actor=name)
                        await asyncio.sleep(st.get("cleanup", 0.5))
                        raise
                    log.add(k="actor_end", id=id_, attempt=attempt, actor=name)
                    return None
                if do == "raise":
                    log.add(k="actor_raise", id=id_, attempt=attempt, actor=name, exc=st.get("exc", "ValueError"))
                    # exception texts a real actor can produce: they end up in log templates, results and buckets
                    msg = st.get("msg")
                    if msg is None:
                        msg = HOSTILE_TEXTS[(sum(map(ord, id_)) + attempt) % len(HOSTILE_TEXTS)]
                    raise EXC[st.get("exc", "ValueError")](msg)
                if do == "eager":
                    shared_tags = []
                    same_exc = {}

                    async def shared_cb():
                        # ONE callable object registered several times: its k-th call stands for its k-th registration
                        log.add(k="callback", id=id_, tag=shared_tags.pop(0) if shared_tags else "c?-shared")

                    for pre in st.get("pre", []):
                        if pre[0] == "set_result":
                            m.set_result(pre[1])
                        elif pre[0] == "set_exception":
                            m.set_exception(EXC[pre[1]](pre[2]))
                        elif pre[0] == "set_exception_same":
                            # ONE exception object handed over more than once (caught once, reported at several places)
                            m.set_exception(same_exc.setdefault((pre[1], pre[2]), EXC[pre[1]](pre[2])))
                        elif pre[0] == "refused_retry":
                            # the actor asks for a retry although none is left, and carries on after the refusal
                            try:
                                await m.retry()
                                log.add(k="retry_not_refused", id=id_)
                            except ValueError:
                                log.add(k="retry_refused", id=id_)
                        elif pre[0] == "callback" and pre[1].endswith("shared"):
                            shared_tags.append(pre[1])
                            m.add_callback(shared_cb)
                        elif pre[0] == "callback":
                            cbtag = pre[1]

                            def cb(tag=cbtag):
                                log.add(k="callback", id=id_, tag=tag)
                                if tag.startswith("raise") or "-raise" in tag:
                                    raise RuntimeError("callback failed")

                            async def acb(tag=cbtag):
                                log.add(k="callback", id=id_, tag=tag)
                                if tag.startswith("raise") or "-raise" in tag:
                                    raise RuntimeError("callback failed")

                            m.add_callback(acb if cbtag.endswith("async") else cb)
                    log.add(k="actor_eager", id=id_, attempt=attempt, actor=name, action=st["action"])
                    act = getattr(m, st["action"])
                    if st["action"] in ("retry", "force_retry") and st.get("next") is not None:
                        await act(timedelta(seconds=st["next"]))
                    else:
                        await act()
                    log.add(k="body_continued", id=id_, attempt=attempt, actor=name)
                    return "continued"
                raise AssertionError(f"bad script {st}")
            finally:
                world.inflight -= 1
                log.add(k="actor_exit", id=id_, attempt=attempt, actor=name, inflight=world.inflight)

        body.__name__ = name
        if sync:
            raise NotImplementedError
        kw = {"name": name}
        if queue is not None:
            kw["queue"] = queue
        if retry_policy is not None:
            kw["retry_policy"] = retry_policy
        router.actor(**kw)(body)
        return body

    def job(self, name: str, id_: str, script=None, **kw):
        from repid import Job

        args = {"script": script} if script is not None else kw.pop("args", None)
        # explicit ids everywhere: uuid4 defaults would make runs irreproducible (hash order, store-call order)
        kw.setdefault("args_id", f"args-{id_}")
        kw.setdefault("result_id", f"res-{id_}")
        if self.magic:
            return Job(name, id_=id_, args=args, **kw)
        return Job(name, id_=id_, args=args, _connection=self.conn, **kw)

    def worker(self, routers, **kw):
        from repid import Worker

        kw.setdefault("handle_signals", [])
        if not self.magic:
            kw.setdefault("_connection", self.conn)
        return Worker(routers=routers, **kw)

    # ---- log queries
    def dispositions(self, id_=None):
        """Top-level terminal broker calls (ack/nack/reject/requeue) in order."""
        return [e for e in self.log.events if e.get("k") == "call" and e.get("depth") == 0
                and e.get("op") in ("ack", "nack", "reject", "requeue") and (id_ is None or e.get("id") == id_)]

    def deliveries(self, id_=None):
        return [e for e in self.log.events if e.get("k") == "ret" and e.get("op") == "consume" and (id_ is None or e.get("id") == id_)]

    def events(self, k: str, id_=None):
        return [e for e in self.log.events if e.get("k") == k and (id_ is None or e.get("id") == id_)]


async def run_worker_until(world: World, worker, *, done, horizon: float, poll: float = 0.05):
    """Run worker.run() as a task; when `done()` becomes true (or the virtual horizon passes) request a stop through
    the runner (the same path a signal takes) and wait for run() to return. Returns (runner|None, stopped_at)."""
    loop = world.loop
    task = loop.create_task(worker.run())
    t_end = loop.time() + horizon
    while not task.done() and loop.time() < t_end and not done():
        await asyncio.sleep(poll)
    return task


import signal as _signal

STOP_SIGNAL = _signal.SIGUSR1


def fire_stop(loop) -> bool:
    """Invoke the worker's registered signal handler (what a real SIGUSR1 delivery would run)."""
    h = getattr(loop, "_signal_handlers", {}).get(STOP_SIGNAL)
    if h is None:
        return False
    h._run()
    return True


async def run_worker(world: World, worker, *, until=None, horizon: float = 60.0, poll: float = 0.05, stop_slack: float = 15.0):
    """worker.run() as a task; poll `until()`; then request a stop via the signal handler and await the return.
    Returns dict(exc, returned, t_stop, t_return)."""
    loop = world.loop
    task = loop.create_task(worker.run())
    t_end = loop.time() + horizon
    while not task.done() and loop.time() < t_end and not (until and until()):
        await asyncio.sleep(poll)
    info = {"exc": None, "returned": False, "t_stop": loop.time(), "t_return": None, "stop_fired": False}
    if not task.done():
        for _ in range(200):
            if fire_stop(loop):
                info["stop_fired"] = True
                break
            await asyncio.sleep(0.01)
    try:
        await asyncio.wait_for(asyncio.shield(task), worker.graceful_shutdown_time + stop_slack)
        info["returned"] = True
    except asyncio.TimeoutError:
        task.cancel()
        try:
            await task
        except BaseException:  # noqa: BLE001
            pass
    except BaseException as exc:  # noqa: BLE001
        info["exc"] = exc
        info["returned"] = True
    info["t_return"] = loop.time()
    return info

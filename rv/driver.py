"""Driver: generates cases, shards them over worker subprocesses (LD_PRELOAD libvclock), merges the
results, classifies violations against known_findings.json, writes evidence/<id>.json.

Exit 0: held on everything observed (listed known findings are printed as KNOWN-FINDING lines);
exit 1: an unlisted violation (VIOLATION line with a replay file); exit 2: inconclusive.
"""
from __future__ import annotations

import argparse
import hashlib
import importlib
import json
import os
import shutil
import subprocess
import sys
import time

ROOT = os.path.dirname(os.path.dirname(os.path.abspath(__file__)))


def load_known(prop: str):
    path = os.path.join(ROOT, "known_findings.json")
    if not os.path.exists(path):
        return []
    with open(path) as f:
        data = json.load(f)
    return [e for e in data.get("findings", []) if e.get("property") == prop]


def vkey(prop, v):
    return (prop, v.get("broker", "-"), v.get("rule", "?"), v.get("context", "-"))


def main(argv=None):
    ap = argparse.ArgumentParser()
    ap.add_argument("prop")
    ap.add_argument("--tier", default=os.environ.get("VERIF_TIER", "quick"))
    ap.add_argument("--seed", type=int, default=int(os.environ.get("VERIF_SEED", "0") or 0))
    ap.add_argument("--replay")
    ap.add_argument("--jobs", type=int, default=int(os.environ.get("VERIF_JOBS", "0") or 0))
    ap.add_argument("--no-evidence", action="store_true")
    ap.add_argument("--limit", type=int, default=0, help="debug: only the first N cases")
    ap.add_argument("--filter", default="", help="debug: only cases whose json contains this text")
    args = ap.parse_args(argv)
    prop = args.prop
    if prop == "selftest":
        env = dict(os.environ)
        env["LD_PRELOAD"] = env["VCLOCK_LIB"]
        env["TZ"] = "UTC"
        return subprocess.call([sys.executable, "-m", "rv.selftest"], env=env, cwd=ROOT)
    tier = args.tier if args.tier in ("quick", "thorough") else "quick"
    mod = importlib.import_module(f"rv.checks.{prop}")
    t0 = time.perf_counter()

    if args.replay:
        with open(args.replay) as f:
            rep = json.load(f)
        cases = [rep["case"]]
    else:
        cases = mod.gen_cases(tier, args.seed)
        if args.filter:
            cases = [c for c in cases if args.filter in json.dumps(c, sort_keys=True)]
        if args.limit:
            cases = cases[: args.limit]
    for i, c in enumerate(cases):
        c.setdefault("cid", i)

    jobs = args.jobs or min(16, os.cpu_count() or 1)
    jobs = max(1, min(jobs, len(cases)))
    run_dir = os.path.join(ROOT, "build", f"run-{prop}-{os.getpid()}")
    os.makedirs(run_dir, exist_ok=True)
    shard_timeout = getattr(mod, "SHARD_TIMEOUT", {"quick": 600, "thorough": 3600})[tier]
    case_timeout = getattr(mod, "CASE_TIMEOUT", 60)
    procs = []
    env = dict(os.environ)
    env["LD_PRELOAD"] = env["VCLOCK_LIB"]
    env["PYTHONHASHSEED"] = str(args.seed % 4294967295)
    env["VERIF_SEED"] = str(args.seed)
    env["TZ"] = "UTC"
    for s in range(jobs):
        shard = cases[s::jobs]
        inp = os.path.join(run_dir, f"in{s}.json")
        out = os.path.join(run_dir, f"out{s}.jsonl")
        with open(inp, "w") as f:
            json.dump(shard, f)
        p = subprocess.Popen(
            [sys.executable, "-m", "rv.worker", prop, inp, out, str(case_timeout)],
            env=env, cwd=ROOT, stdout=subprocess.PIPE, stderr=subprocess.STDOUT,
        )
        procs.append((p, shard, out))
    results = []
    shard_problems = []
    deadline = time.perf_counter() + shard_timeout
    for p, shard, out in procs:
        try:
            so, _ = p.communicate(timeout=max(1.0, deadline - time.perf_counter()))
        except subprocess.TimeoutExpired:
            p.kill()
            so, _ = p.communicate()
            shard_problems.append("shard watchdog expired")
        if p.returncode not in (0, None):
            tail = (so or b"").decode(errors="replace")[-1500:]
            shard_problems.append(f"worker exit {p.returncode}: {tail}")
        got = {}
        if os.path.exists(out):
            with open(out) as f:
                for line in f:
                    try:
                        r = json.loads(line)
                        got[r["cid"]] = r
                    except Exception:  # noqa: BLE001
                        pass
        for c in shard:
            r = got.get(c["cid"])
            if r is None:
                r = {"cid": c["cid"], "fp": None, "viol": [], "stats": {}, "inconclusive": "no result (worker died or timed out)"}
            r["_case"] = c
            results.append(r)
    shutil.rmtree(run_dir, ignore_errors=True)

    # ---- merge
    stats: dict[str, int] = {}
    fps = set()
    samples = []
    inconcl = []
    viols = []
    extra_sets: dict[str, set] = {}
    for r in results:
        for k, v in (r.get("stats") or {}).items():
            stats[k] = stats.get(k, 0) + v
        for k, vals in (r.get("sets") or {}).items():
            extra_sets.setdefault(k, set()).update(vals)
        if r.get("fp"):
            fps.add(r["fp"])
        for fp in r.get("fps") or []:
            fps.add(fp)
        if r.get("inconclusive"):
            inconcl.append({"cid": r["cid"], "why": str(r["inconclusive"])[:300]})
        if r.get("sample") is not None and len(samples) < 4:
            samples.append(r["sample"])
        for v in r.get("viol") or []:
            viols.append((r, v))
    evaluated = sum(1 for r in results if not r.get("inconclusive"))
    if getattr(mod, "EVAL_COUNTER", None):
        evaluated = stats.get(mod.EVAL_COUNTER, 0)

    known = load_known(prop)
    known_keys = {(e["property"], e.get("broker", "-"), e["rule"], e.get("context", "-")): e for e in known if e.get("status") == "known"}
    listed_hits: dict[tuple, int] = {}
    unlisted = []
    for r, v in viols:
        k = vkey(prop, v)
        if k in known_keys:
            listed_hits[k] = listed_hits.get(k, 0) + 1
        else:
            unlisted.append((r, v))

    os.makedirs(os.path.join(ROOT, "replays"), exist_ok=True)
    lines = []
    seen_unlisted = {}
    for r, v in unlisted:
        k = vkey(prop, v)
        if k in seen_unlisted:
            seen_unlisted[k][1] += 1
            continue
        h = hashlib.sha1(json.dumps([k, r["_case"]], sort_keys=True, default=str).encode()).hexdigest()[:12]
        path = os.path.join("replays", f"{prop}-{h}.json")
        with open(os.path.join(ROOT, path), "w") as f:
            json.dump({"property": prop, "key": k, "violation": v, "case": r["_case"]}, f, indent=1, default=str)
        seen_unlisted[k] = [path, 1, v]
    for k, e in known_keys.items():
        n = listed_hits.get(k, 0)
        lines.append(f"KNOWN-FINDING: property={prop} broker={k[1]} rule={k[2]} context={k[3]} observed={n} :: {e.get('what_fails', '')}")
    for k, (path, n, v) in seen_unlisted.items():
        lines.append(f"VIOLATION property={prop} replay={path} broker={k[1]} rule={k[2]} context={k[3]} count={n} :: {str(v.get('detail', ''))[:400]}")

    # ---- inconclusive?
    required = getattr(mod, "REQUIRED", [])
    missing = [k for k in required if stats.get(k, 0) <= 0]
    too_many_dead = len(inconcl) > max(2, len(results) // 20)
    verdict = "held"
    if unlisted:
        verdict = "violated"
    elif not args.replay and (missing or too_many_dead or evaluated == 0 or len(fps) < 2):
        verdict = "inconclusive"

    wall = time.perf_counter() - t0
    summary_extra = {}
    if hasattr(mod, "summarize"):
        try:
            summary_extra = mod.summarize(results, stats, extra_sets) or {}
        except Exception as exc:  # noqa: BLE001
            summary_extra = {"summarize_error": repr(exc)}
    coverage = {
        "evaluations": evaluated,
        "distinct_nontrivial": len(fps),
        "rule": getattr(mod, "RULE", ""),
        "samples": samples or [{"note": "no sample produced"}],
        "counters": dict(sorted(stats.items())),
        "sets": {k: sorted(v)[:60] for k, v in sorted(extra_sets.items())},
        "set_sizes": {k: len(v) for k, v in sorted(extra_sets.items())},
        "inconclusive_cases": inconcl[:20],
        "inconclusive_count": len(inconcl),
        "shard_problems": shard_problems[:5],
        "known_findings_observed": {"/".join(k[1:]): n for k, n in listed_hits.items()},
        "unlisted_violations": [{"key": list(k), "count": n, "replay": p} for k, (p, n, v) in seen_unlisted.items()],
        "verdict": verdict,
        "required_counters_missing": missing,
        "exhaustive": bool(getattr(mod, "EXHAUSTIVE", False)),
    }
    coverage.update(summary_extra)
    ev = {
        "property_id": prop,
        "tier": tier,
        "seed": args.seed,
        "level": getattr(mod, "LEVEL", "exploration"),
        "coverage": coverage,
        "assumptions": getattr(mod, "ASSUMPTIONS", []),
        "wall_s": round(wall, 2),
        "violations": len(unlisted),
    }
    if not args.replay and not args.no_evidence and not args.limit and not args.filter:
        os.makedirs(os.path.join(ROOT, "evidence"), exist_ok=True)
        with open(os.path.join(ROOT, "evidence", f"{prop}.json"), "w") as f:
            json.dump(ev, f, indent=1, default=str)
    print(f"[{prop}] tier={tier} seed={args.seed} cases={len(results)} evaluated={evaluated} distinct_nontrivial={len(fps)} "
          f"violations(unlisted)={len(unlisted)} known_hits={sum(listed_hits.values())} inconclusive={len(inconcl)} wall={wall:.1f}s verdict={verdict}")
    keys = sorted(stats)
    print("  counters: " + ", ".join(f"{k}={stats[k]}" for k in keys))
    for k, v in sorted(extra_sets.items()):
        print(f"  distinct {k}: {len(v)}")
    for pbm in shard_problems[:3]:
        print("  shard problem:", pbm[:600])
    for i in inconcl[:5]:
        print("  inconclusive:", i)
    if missing:
        print("  required counters never reached:", missing)
    for line in lines:
        print(line)
    if verdict == "violated":
        return 1
    if verdict == "inconclusive":
        print(f"INCONCLUSIVE property={prop}")
        return 2
    return 0


if __name__ == "__main__":
    sys.exit(main())
